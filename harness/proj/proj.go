// Package proj projects Go values onto the abstract value format shared with
// the TLA+ specification (DESIGN.md, Appendix D).  It decides nothing: it
// only writes down what a value looks like (kinds, octets, pointer identity).
package proj

import (
	"encoding/binary"
	"encoding/json"
	"math"
	"reflect"
	"sort"
	"time"
	"unsafe"
)

type M = map[string]interface{}

// Octets turns a byte slice into a JSON array of small ints.
func Octets(b []byte) []int {
	r := make([]int, len(b))
	for i, x := range b {
		r[i] = int(x)
	}
	return r
}

func I64(v int64) []int {
	var b [8]byte
	binary.BigEndian.PutUint64(b[:], uint64(v))
	return Octets(b[:])
}

func F64(f float64) []int { return I64(int64(math.Float64bits(f))) }

var timeType = reflect.TypeOf(time.Time{})

type ident struct {
	p unsafe.Pointer
	k reflect.Kind
	n int          // length for slices (same array, other length = other slice)
	t reflect.Type // a struct and its first field share an address, not an identity
}

// P is one projection context: one type table, any number of values.
type P struct {
	Types   []M
	typeIdx map[reflect.Type]int
	NameMap map[string]string // used only to look up the registered name of a type
}

func New(nameMap map[string]string) *P {
	return &P{Types: []M{}, typeIdx: map[reflect.Type]int{}, NameMap: nameMap}
}

func typeName(t reflect.Type) string {
	n := t.Name()
	if n == "" {
		n = t.String()
	}
	return n
}

func rootElem(t reflect.Type) reflect.Type {
	seen := map[reflect.Type]bool{} // type Tree []Tree has no root element
	for (t.Kind() == reflect.Slice || t.Kind() == reflect.Ptr || t.Kind() == reflect.Array) && !seen[t] {
		seen[t] = true
		t = t.Elem()
	}
	return t
}

// TypeByID returns the reflect.Type registered under id.
func (p *P) TypeByID(id int) reflect.Type {
	for t, i := range p.typeIdx {
		if i == id {
			return t
		}
	}
	return nil
}

// TypeID returns the index (1-based) of t in the type table, adding it.
func (p *P) TypeID(t reflect.Type) int {
	if id, ok := p.typeIdx[t]; ok {
		return id
	}
	d := M{"go": t.String(), "kind": t.Kind().String(), "named": b2i(t.Name() != "")}
	p.Types = append(p.Types, d)
	id := len(p.Types)
	p.typeIdx[t] = id
	d["id"] = id
	reg, has := "", false
	if p.NameMap != nil {
		reg, has = p.NameMap[typeName(t)]
	}
	d["hasreg"] = b2i(has)
	d["reg"] = Octets([]byte(reg))
	d["regs"] = ascii(reg)
	switch t.Kind() {
	case reflect.Struct:
		if t == timeType {
			d["kind"] = "time"
			break
		}
		fn := [][]int{}
		ft := []int{}
		fs := []string{}
		fe := []int{}
		for i := 0; i < t.NumField(); i++ {
			fe = append(fe, b2i(t.Field(i).Anonymous))
			fn = append(fn, Octets([]byte(t.Field(i).Name)))
			fs = append(fs, t.Field(i).Name)
			ft = append(ft, p.TypeID(t.Field(i).Type))
		}
		d["fn"] = fn
		d["fs"] = fs
		d["ft"] = ft
		d["fe"] = fe
		d["name"] = Octets([]byte(t.Name()))
	case reflect.Slice, reflect.Array:
		if t.Elem().Kind() == reflect.Uint8 {
			d["kind"] = "bytes"
			break
		}
		d["kind"] = "slice"
		d["elem"] = p.TypeID(t.Elem())
		d["ifroot"] = b2i(rootElem(t).Kind() == reflect.Interface)
	case reflect.Map:
		d["key"] = p.TypeID(t.Key())
		d["elem"] = p.TypeID(t.Elem())
	case reflect.Ptr:
		d["elem"] = p.TypeID(t.Elem())
	case reflect.Interface:
		d["kind"] = "iface"
	}
	return id
}

func ascii(s string) string {
	b := []byte(s)
	for i, c := range b {
		if c < 32 || c > 126 || c == '"' || c == '\\' {
			b[i] = '?'
		}
	}
	return string(b)
}

func b2i(b bool) int {
	if b {
		return 1
	}
	return 0
}

// V is one projected value: a heap of container nodes and a root slot.
type V struct {
	p     *P
	Nodes []M
	seen  map[ident]int
	Root  M
}

func (v *V) JSON() M { return M{"n": v.Nodes, "r": v.Root} }

// Project projects x (any Go value, nil included).
func (p *P) Project(x interface{}) *V {
	v := &V{p: p, seen: map[ident]int{}, Nodes: []M{}}
	if x == nil {
		v.Root = M{"k": "nil"}
		return v
	}
	v.Root = v.slot(reflect.ValueOf(x), 0)
	return v
}

// ProjectMany projects several values into ONE heap (identity is kept
// across the values): returns the value with "roots" instead of "r".
func (p *P) ProjectMany(xs []interface{}) M {
	v := &V{p: p, seen: map[ident]int{}, Nodes: []M{}}
	roots := make([]M, len(xs))
	for i, x := range xs {
		if x == nil {
			roots[i] = M{"k": "nil"}
		} else {
			roots[i] = v.slot(reflect.ValueOf(x), 0)
		}
	}
	return M{"n": v.Nodes, "roots": roots}
}

func (v *V) newNode(n M) int {
	v.Nodes = append(v.Nodes, n)
	return len(v.Nodes)
}

func (v *V) slot(rv reflect.Value, depth int) M {
	switch rv.Kind() {
	case reflect.Invalid:
		return M{"k": "nil"}
	case reflect.Interface:
		if rv.IsNil() {
			return M{"k": "nil"}
		}
		return v.slot(rv.Elem(), depth)
	case reflect.Ptr:
		if rv.IsNil() {
			return M{"k": "nil"}
		}
		e := rv.Elem()
		switch {
		case e.Kind() == reflect.Struct && e.Type() != timeType:
			id := ident{unsafe.Pointer(rv.Pointer()), reflect.Struct, 0, e.Type()}
			if n, ok := v.seen[id]; ok {
				return M{"k": "p", "i": n, "d": depth + 1}
			}
			n := v.newNode(nil)
			v.seen[id] = n
			v.Nodes[n-1] = v.objNode(e)
			return M{"k": "p", "i": n, "d": depth + 1}
		default:
			return v.slot(e, depth+1)
		}
	case reflect.Struct:
		if rv.Type() == timeType {
			return timeSlot(rv.Interface().(time.Time))
		}
		n := v.newNode(nil)
		v.Nodes[n-1] = v.objNode(rv)
		return M{"k": "p", "i": n, "d": depth}
	case reflect.Slice, reflect.Array:
		if rv.Kind() == reflect.Slice && rv.Type().Elem().Kind() == reflect.Uint8 {
			return M{"k": "bin", "b": Octets(rv.Bytes())}
		}
		if rv.Kind() == reflect.Slice && rv.IsNil() {
			return M{"k": "nil"}
		}
		if rv.Len() == 0 {
			return M{"k": "empty"}
		}
		var id ident
		if rv.Kind() == reflect.Slice {
			id = ident{unsafe.Pointer(rv.Pointer()), reflect.Slice, rv.Len(), rv.Type()}
			if n, ok := v.seen[id]; ok && v.Nodes[n-1]["t"] == v.p.TypeID(rv.Type()) {
				return M{"k": "p", "i": n, "d": depth}
			}
		}
		n := v.newNode(nil)
		if rv.Kind() == reflect.Slice {
			v.seen[id] = n
		}
		es := make([]M, rv.Len())
		v.Nodes[n-1] = M{"k": "list", "t": v.p.TypeID(rv.Type())}
		for i := 0; i < rv.Len(); i++ {
			es[i] = v.slot(rv.Index(i), 0)
		}
		v.Nodes[n-1]["e"] = es
		return M{"k": "p", "i": n, "d": depth}
	case reflect.Map:
		if rv.IsNil() {
			return M{"k": "nil"}
		}
		if rv.Len() == 0 {
			return M{"k": "empty"}
		}
		id := ident{unsafe.Pointer(rv.Pointer()), reflect.Map, 0, rv.Type()}
		if n, ok := v.seen[id]; ok {
			return M{"k": "p", "i": n, "d": depth}
		}
		n := v.newNode(nil)
		v.seen[id] = n
		v.Nodes[n-1] = M{"k": "map", "t": v.p.TypeID(rv.Type())}
		keys := rv.MapKeys()
		type kv struct {
			ks string
			k  reflect.Value
		}
		kvs := make([]kv, len(keys))
		for i, k := range keys {
			tv := &V{p: v.p, seen: map[ident]int{}, Nodes: []M{}}
			ks := tv.slot(k, 0)
			kk := k
			for kk.Kind() == reflect.Interface && !kk.IsNil() {
				kk = kk.Elem()
			}
			if ks["k"] == "f" && (kk.Kind() == reflect.Float32 || kk.Kind() == reflect.Float64) && kk.Float() == 0 {
				ks = M{"k": "f", "g": ks["g"], "b": F64(0)} // -0 and +0 are one key after a round trip: one place in the order
			}
			kj, _ := json.Marshal([]interface{}{ks, tv.Nodes}) // struct keys: their fields order the entries
			kvs[i] = kv{string(kj), k}
		}
		sort.Slice(kvs, func(i, j int) bool { return kvs[i].ks < kvs[j].ks })
		ms := make([][]M, len(kvs))
		for i, e := range kvs {
			ms[i] = []M{v.slot(e.k, 0), v.slot(rv.MapIndex(e.k), 0)}
		}
		v.Nodes[n-1]["m"] = ms
		return M{"k": "p", "i": n, "d": depth}
	case reflect.Bool:
		return M{"k": "bool", "v": b2i(rv.Bool())}
	case reflect.Int, reflect.Int8, reflect.Int16, reflect.Int32, reflect.Int64:
		return M{"k": "int", "g": rv.Kind().String(), "b": I64(rv.Int())}
	case reflect.Uint, reflect.Uint8, reflect.Uint16, reflect.Uint32, reflect.Uint64:
		return M{"k": "int", "g": rv.Kind().String(), "b": I64(int64(rv.Uint()))}
	case reflect.Float32, reflect.Float64:
		return M{"k": "f", "g": rv.Kind().String(), "b": F64(rv.Float())}
	case reflect.String:
		return M{"k": "str", "b": Octets([]byte(rv.String()))}
	}
	return M{"k": "bad", "g": rv.Kind().String()}
}

func (v *V) objNode(e reflect.Value) M {
	t := e.Type()
	n := M{"k": "obj", "t": v.p.TypeID(t)}
	fs := make([]M, t.NumField())
	for i := 0; i < t.NumField(); i++ {
		if t.Field(i).PkgPath != "" { // not exported: cannot be represented (the decoder could not set it)
			fs[i] = M{"k": "bad", "g": "unexported"}
			continue
		}
		fs[i] = v.slot(e.Field(i), 0)
	}
	n["f"] = fs
	return n
}

// timeSlot: floor milliseconds since the epoch as 8 octets, the
// sub-millisecond remainder in ns, and whether it is the zero time.
func timeSlot(t time.Time) M {
	sec := t.Unix()
	ns := int64(t.Nanosecond())
	ms := sec*1000 + ns/1000000
	return M{"k": "time", "z": b2i(t.IsZero()), "b": I64(ms), "sub": int(ns % 1000000)}
}
