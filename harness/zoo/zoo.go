// Package zoo declares the Go types the conformance drivers build values of.
package zoo

import "time"

// Scalars has one field of every supported scalar kind.
type Scalars struct {
	B   bool
	I   int
	I8  int8
	I16 int16
	I32 int32
	I64 int64
	U   uint
	U8  uint8
	U16 uint16
	U32 uint32
	U64 uint64
	F32 float32
	F64 float64
	S   string
	Bin []byte
	T   time.Time
}

// Named scalar types: integers, strings, floats and booleans of a declared type.
type Color int32
type Label string
type Ratio float64
type Flag bool
type Big int64
type Tiny uint8

type Named struct {
	C  Color
	L  Label
	R  Ratio
	F  Flag
	B  Big
	T  Tiny
	Cs []Color
	Ls []Label
	M  map[Label]Color
}

// Small is a two-field struct used as element / nested value.
type Small struct {
	Name string
	N    int32
}

// Ints: one struct per integer kind keeps per-kind events tiny.
type HI struct{ V int }
type HI8 struct{ V int8 }
type HI16 struct{ V int16 }
type HI32 struct{ V int32 }
type HI64 struct{ V int64 }
type HU struct{ V uint }
type HU8 struct{ V uint8 }
type HU16 struct{ V uint16 }
type HU32 struct{ V uint32 }
type HU64 struct{ V uint64 }
type HF32 struct{ V float32 }
type HF64 struct{ V float64 }
type HStr struct{ V string }
type HBin struct{ V []byte }
type HTime struct{ V time.Time }
type HPTime struct {
	P *time.Time
	Q *time.Time
}
type HBool struct{ V bool }

// Slices of every scalar kind.
type Slices struct {
	Bs   []bool
	Is   []int
	I8s  []int8
	I16s []int16
	I32s []int32
	I64s []int64
	Us   []uint
	U16s []uint16
	U32s []uint32
	U64s []uint64
	F32s []float32
	F64s []float64
	Ss   []string
	Ts   []time.Time
}

// Item is the by-value element type ([]Item and []*Item would share one wire
// name "[zoo.Item" and make the type map ambiguous, so pointers use Small).
type Item struct {
	K string
	V int64
}

// Conts has containers of structs, pointers, containers.
type Conts struct {
	Vals  []Item
	Ptrs  []*Small
	LL    [][]int32
	LS    [][]string
	LM    []map[string]int32
	MS    map[string]string
	MI    map[int32]string
	MV    map[string]Item
	MP    map[string]*Small
	ML    map[string][]int32
	MM    map[string]map[string]int32
	MF    map[string]float64
	MFK   map[float64]string
	ML64  map[int64]int64
	MU64  map[uint64]uint64
	MI8   map[int8]uint16
	Inner Small
	PIn   *Small
}

// Embedded struct.
type Base struct {
	ID  int64
	Tag string
}
type Derived struct {
	Base
	Extra string
}

// Custom-named.
type Custom struct {
	Key string
	Val string
}

func (Custom) HessianCodecName() string { return "com.example.Custom" }

type CustomHolder struct {
	Title string
	Items []Custom
	One   Custom
}

func (CustomHolder) HessianCodecName() string { return "com.example.Holder" }

// NamedMap is a named map type with a codec name.
type NamedMap map[string]int32

type NamedMapHolder struct {
	M NamedMap
}

// Recursive graph node as in ref_test.go.
type Nodes []*Node
type Node struct {
	Name string
	A    *Node
	B    *Node
	L    []*Node
	M    map[string]*Node
	PL   *Nodes
	PM   *map[string]*Node
}

// Filler-heavy nodes for C04: a filler field of each non-container kind in
// front of the pointer fields.
type FNode struct {
	FT time.Time
	PT *time.Time
	FM map[string]int32
	FS string
	FB []byte
	FL []int32
	FP *Small
	A  *FNode
	B  *FNode
	L  []*FNode
	M  map[string]*FNode
}

// Mutually recursive.
type Ping struct {
	N    int32
	Pong *Pong
}
type Pong struct {
	S    string
	Ping *Ping
	All  []*Ping
}

// Wide: many distinct classes in one message (class indexes 0..20).
type W00 struct{ V int32 }
type W01 struct{ V int32 }
type W02 struct{ V int32 }
type W03 struct{ V int32 }
type W04 struct{ V int32 }
type W05 struct{ V int32 }
type W06 struct{ V int32 }
type W07 struct{ V int32 }
type W08 struct{ V int32 }
type W09 struct{ V int32 }
type W10 struct{ V int32 }
type W11 struct{ V int32 }
type W12 struct{ V int32 }
type W13 struct{ V int32 }
type W14 struct{ V int32 }
type W15 struct{ V int32 }
type W16 struct{ V int32 }
type W17 struct{ V int32 }
type W18 struct{ V int32 }
type W19 struct{ V int32 }

type Wide struct {
	F00 W00
	F01 *W01
	F02 []W02
	F03 W03
	F04 *W04
	F05 []*W05
	F06 W06
	F07 W07
	F08 W08
	F09 W09
	F10 W10
	F11 W11
	F12 W12
	F13 W13
	F14 W14
	F15 *W15
	F16 []W16
	F17 W17
	F18 *W18
	F19 W19
}

// Five-field struct for C05 permutations.
type Five struct {
	A int32
	B string
	C int64
	D bool
	E float64
}

// Bad kinds for C13.
type BadChan struct {
	Ok int32
	C  chan int
}
type BadFunc struct {
	Ok int32
	F  func()
}
type BadCplx struct {
	Ok int32
	C  complex128
}
type BadInList struct {
	L []interface{}
}
type BadInMap struct {
	M map[string]interface{}
}

// Outer holds a struct by value as its first field: &o and &o.In are one address.
type Outer struct {
	In Small
	X  int32
}

// Interior: pointers into the middle of other values and slices over one array.
type Interior struct {
	B *Small
	A *Outer
	C []int32
	D []int32
	E []*Small
	F []*Small
	G *Outer
	H *Small
	I []int32
}

// Uni: exported field names that begin with letters outside ASCII (the library's case mapping is ASCII-only).
type Uni struct {
	Élan  int32
	Ärger string
	Ñu    bool
	Ωmega []int32
	Plain string
}

type Uni2 struct {
	Élan int32
	Ñu   string
}

// Unexp has a field that is not exported; EmbHidden embeds a type that is not exported.
type Unexp struct {
	A int32
	b int32
	C string
}

func NewUnexp(a, b int32) Unexp { return Unexp{A: a, b: b, C: "c"} }

type hidden struct{ X int32 }
type EmbHidden struct {
	hidden
	Y int32
}

func NewEmbHidden(x int32) EmbHidden { return EmbHidden{hidden{x}, 1} }

// IList: a DECLARED list type with interface elements (it travels as a typed list)
type IList []interface{}
type HoldIList struct {
	L IList
	P *Small
}

// container types that contain themselves (the type map may hold such types)
type RecList []RecList
type RecMap map[string]RecMap
type HoldRecList struct {
	Kids RecList
	N    int32
}
type HoldRecMap struct {
	M RecMap
}

// a declared map type in front of two lists of one type (the map's type name sits in the type table too)
type MapThenLists struct {
	M  NamedMap
	L1 []int32
	L2 []int32
	L3 []string
	L4 []string
}

// a base type whose custom name sits on the pointer receiver, embedded by pointer and by value
type PtrNamedBase struct{ ID int32 }

func (*PtrNamedBase) HessianCodecName() string { return "com.example.PtrNamedBase" }

type EmbPtrNamed struct {
	*PtrNamedBase
	X int32
}
type EmbValNamed struct {
	PtrNamedBase
	Y string
}
