// Code generated for the zoo: 300 distinct struct types (class-definition indexes beyond one octet).
package zoo

type M000 struct{ V int32 }
type M001 struct{ V int32 }
type M002 struct{ V int32 }
type M003 struct{ V int32 }
type M004 struct{ V int32 }
type M005 struct{ V int32 }
type M006 struct{ V int32 }
type M007 struct{ V int32 }
type M008 struct{ V int32 }
type M009 struct{ V int32 }
type M010 struct{ V int32 }
type M011 struct{ V int32 }
type M012 struct{ V int32 }
type M013 struct{ V int32 }
type M014 struct{ V int32 }
type M015 struct{ V int32 }
type M016 struct{ V int32 }
type M017 struct{ V int32 }
type M018 struct{ V int32 }
type M019 struct{ V int32 }
type M020 struct{ V int32 }
type M021 struct{ V int32 }
type M022 struct{ V int32 }
type M023 struct{ V int32 }
type M024 struct{ V int32 }
type M025 struct{ V int32 }
type M026 struct{ V int32 }
type M027 struct{ V int32 }
type M028 struct{ V int32 }
type M029 struct{ V int32 }
type M030 struct{ V int32 }
type M031 struct{ V int32 }
type M032 struct{ V int32 }
type M033 struct{ V int32 }
type M034 struct{ V int32 }
type M035 struct{ V int32 }
type M036 struct{ V int32 }
type M037 struct{ V int32 }
type M038 struct{ V int32 }
type M039 struct{ V int32 }
type M040 struct{ V int32 }
type M041 struct{ V int32 }
type M042 struct{ V int32 }
type M043 struct{ V int32 }
type M044 struct{ V int32 }
type M045 struct{ V int32 }
type M046 struct{ V int32 }
type M047 struct{ V int32 }
type M048 struct{ V int32 }
type M049 struct{ V int32 }
type M050 struct{ V int32 }
type M051 struct{ V int32 }
type M052 struct{ V int32 }
type M053 struct{ V int32 }
type M054 struct{ V int32 }
type M055 struct{ V int32 }
type M056 struct{ V int32 }
type M057 struct{ V int32 }
type M058 struct{ V int32 }
type M059 struct{ V int32 }
type M060 struct{ V int32 }
type M061 struct{ V int32 }
type M062 struct{ V int32 }
type M063 struct{ V int32 }
type M064 struct{ V int32 }
type M065 struct{ V int32 }
type M066 struct{ V int32 }
type M067 struct{ V int32 }
type M068 struct{ V int32 }
type M069 struct{ V int32 }
type M070 struct{ V int32 }
type M071 struct{ V int32 }
type M072 struct{ V int32 }
type M073 struct{ V int32 }
type M074 struct{ V int32 }
type M075 struct{ V int32 }
type M076 struct{ V int32 }
type M077 struct{ V int32 }
type M078 struct{ V int32 }
type M079 struct{ V int32 }
type M080 struct{ V int32 }
type M081 struct{ V int32 }
type M082 struct{ V int32 }
type M083 struct{ V int32 }
type M084 struct{ V int32 }
type M085 struct{ V int32 }
type M086 struct{ V int32 }
type M087 struct{ V int32 }
type M088 struct{ V int32 }
type M089 struct{ V int32 }
type M090 struct{ V int32 }
type M091 struct{ V int32 }
type M092 struct{ V int32 }
type M093 struct{ V int32 }
type M094 struct{ V int32 }
type M095 struct{ V int32 }
type M096 struct{ V int32 }
type M097 struct{ V int32 }
type M098 struct{ V int32 }
type M099 struct{ V int32 }
type M100 struct{ V int32 }
type M101 struct{ V int32 }
type M102 struct{ V int32 }
type M103 struct{ V int32 }
type M104 struct{ V int32 }
type M105 struct{ V int32 }
type M106 struct{ V int32 }
type M107 struct{ V int32 }
type M108 struct{ V int32 }
type M109 struct{ V int32 }
type M110 struct{ V int32 }
type M111 struct{ V int32 }
type M112 struct{ V int32 }
type M113 struct{ V int32 }
type M114 struct{ V int32 }
type M115 struct{ V int32 }
type M116 struct{ V int32 }
type M117 struct{ V int32 }
type M118 struct{ V int32 }
type M119 struct{ V int32 }
type M120 struct{ V int32 }
type M121 struct{ V int32 }
type M122 struct{ V int32 }
type M123 struct{ V int32 }
type M124 struct{ V int32 }
type M125 struct{ V int32 }
type M126 struct{ V int32 }
type M127 struct{ V int32 }
type M128 struct{ V int32 }
type M129 struct{ V int32 }
type M130 struct{ V int32 }
type M131 struct{ V int32 }
type M132 struct{ V int32 }
type M133 struct{ V int32 }
type M134 struct{ V int32 }
type M135 struct{ V int32 }
type M136 struct{ V int32 }
type M137 struct{ V int32 }
type M138 struct{ V int32 }
type M139 struct{ V int32 }
type M140 struct{ V int32 }
type M141 struct{ V int32 }
type M142 struct{ V int32 }
type M143 struct{ V int32 }
type M144 struct{ V int32 }
type M145 struct{ V int32 }
type M146 struct{ V int32 }
type M147 struct{ V int32 }
type M148 struct{ V int32 }
type M149 struct{ V int32 }
type M150 struct{ V int32 }
type M151 struct{ V int32 }
type M152 struct{ V int32 }
type M153 struct{ V int32 }
type M154 struct{ V int32 }
type M155 struct{ V int32 }
type M156 struct{ V int32 }
type M157 struct{ V int32 }
type M158 struct{ V int32 }
type M159 struct{ V int32 }
type M160 struct{ V int32 }
type M161 struct{ V int32 }
type M162 struct{ V int32 }
type M163 struct{ V int32 }
type M164 struct{ V int32 }
type M165 struct{ V int32 }
type M166 struct{ V int32 }
type M167 struct{ V int32 }
type M168 struct{ V int32 }
type M169 struct{ V int32 }
type M170 struct{ V int32 }
type M171 struct{ V int32 }
type M172 struct{ V int32 }
type M173 struct{ V int32 }
type M174 struct{ V int32 }
type M175 struct{ V int32 }
type M176 struct{ V int32 }
type M177 struct{ V int32 }
type M178 struct{ V int32 }
type M179 struct{ V int32 }
type M180 struct{ V int32 }
type M181 struct{ V int32 }
type M182 struct{ V int32 }
type M183 struct{ V int32 }
type M184 struct{ V int32 }
type M185 struct{ V int32 }
type M186 struct{ V int32 }
type M187 struct{ V int32 }
type M188 struct{ V int32 }
type M189 struct{ V int32 }
type M190 struct{ V int32 }
type M191 struct{ V int32 }
type M192 struct{ V int32 }
type M193 struct{ V int32 }
type M194 struct{ V int32 }
type M195 struct{ V int32 }
type M196 struct{ V int32 }
type M197 struct{ V int32 }
type M198 struct{ V int32 }
type M199 struct{ V int32 }
type M200 struct{ V int32 }
type M201 struct{ V int32 }
type M202 struct{ V int32 }
type M203 struct{ V int32 }
type M204 struct{ V int32 }
type M205 struct{ V int32 }
type M206 struct{ V int32 }
type M207 struct{ V int32 }
type M208 struct{ V int32 }
type M209 struct{ V int32 }
type M210 struct{ V int32 }
type M211 struct{ V int32 }
type M212 struct{ V int32 }
type M213 struct{ V int32 }
type M214 struct{ V int32 }
type M215 struct{ V int32 }
type M216 struct{ V int32 }
type M217 struct{ V int32 }
type M218 struct{ V int32 }
type M219 struct{ V int32 }
type M220 struct{ V int32 }
type M221 struct{ V int32 }
type M222 struct{ V int32 }
type M223 struct{ V int32 }
type M224 struct{ V int32 }
type M225 struct{ V int32 }
type M226 struct{ V int32 }
type M227 struct{ V int32 }
type M228 struct{ V int32 }
type M229 struct{ V int32 }
type M230 struct{ V int32 }
type M231 struct{ V int32 }
type M232 struct{ V int32 }
type M233 struct{ V int32 }
type M234 struct{ V int32 }
type M235 struct{ V int32 }
type M236 struct{ V int32 }
type M237 struct{ V int32 }
type M238 struct{ V int32 }
type M239 struct{ V int32 }
type M240 struct{ V int32 }
type M241 struct{ V int32 }
type M242 struct{ V int32 }
type M243 struct{ V int32 }
type M244 struct{ V int32 }
type M245 struct{ V int32 }
type M246 struct{ V int32 }
type M247 struct{ V int32 }
type M248 struct{ V int32 }
type M249 struct{ V int32 }
type M250 struct{ V int32 }
type M251 struct{ V int32 }
type M252 struct{ V int32 }
type M253 struct{ V int32 }
type M254 struct{ V int32 }
type M255 struct{ V int32 }
type M256 struct{ V int32 }
type M257 struct{ V int32 }
type M258 struct{ V int32 }
type M259 struct{ V int32 }
type M260 struct{ V int32 }
type M261 struct{ V int32 }
type M262 struct{ V int32 }
type M263 struct{ V int32 }
type M264 struct{ V int32 }
type M265 struct{ V int32 }
type M266 struct{ V int32 }
type M267 struct{ V int32 }
type M268 struct{ V int32 }
type M269 struct{ V int32 }
type M270 struct{ V int32 }
type M271 struct{ V int32 }
type M272 struct{ V int32 }
type M273 struct{ V int32 }
type M274 struct{ V int32 }
type M275 struct{ V int32 }
type M276 struct{ V int32 }
type M277 struct{ V int32 }
type M278 struct{ V int32 }
type M279 struct{ V int32 }
type M280 struct{ V int32 }
type M281 struct{ V int32 }
type M282 struct{ V int32 }
type M283 struct{ V int32 }
type M284 struct{ V int32 }
type M285 struct{ V int32 }
type M286 struct{ V int32 }
type M287 struct{ V int32 }
type M288 struct{ V int32 }
type M289 struct{ V int32 }
type M290 struct{ V int32 }
type M291 struct{ V int32 }
type M292 struct{ V int32 }
type M293 struct{ V int32 }
type M294 struct{ V int32 }
type M295 struct{ V int32 }
type M296 struct{ V int32 }
type M297 struct{ V int32 }
type M298 struct{ V int32 }
type M299 struct{ V int32 }

// ManyClasses returns one instance of each of the first n generated types.
func ManyClasses(n int) []interface{} {
	all := []interface{}{
		M000{V: 0},
		M001{V: 1},
		M002{V: 2},
		M003{V: 3},
		M004{V: 4},
		M005{V: 5},
		M006{V: 6},
		M007{V: 7},
		M008{V: 8},
		M009{V: 9},
		M010{V: 10},
		M011{V: 11},
		M012{V: 12},
		M013{V: 13},
		M014{V: 14},
		M015{V: 15},
		M016{V: 16},
		M017{V: 17},
		M018{V: 18},
		M019{V: 19},
		M020{V: 20},
		M021{V: 21},
		M022{V: 22},
		M023{V: 23},
		M024{V: 24},
		M025{V: 25},
		M026{V: 26},
		M027{V: 27},
		M028{V: 28},
		M029{V: 29},
		M030{V: 30},
		M031{V: 31},
		M032{V: 32},
		M033{V: 33},
		M034{V: 34},
		M035{V: 35},
		M036{V: 36},
		M037{V: 37},
		M038{V: 38},
		M039{V: 39},
		M040{V: 40},
		M041{V: 41},
		M042{V: 42},
		M043{V: 43},
		M044{V: 44},
		M045{V: 45},
		M046{V: 46},
		M047{V: 47},
		M048{V: 48},
		M049{V: 49},
		M050{V: 50},
		M051{V: 51},
		M052{V: 52},
		M053{V: 53},
		M054{V: 54},
		M055{V: 55},
		M056{V: 56},
		M057{V: 57},
		M058{V: 58},
		M059{V: 59},
		M060{V: 60},
		M061{V: 61},
		M062{V: 62},
		M063{V: 63},
		M064{V: 64},
		M065{V: 65},
		M066{V: 66},
		M067{V: 67},
		M068{V: 68},
		M069{V: 69},
		M070{V: 70},
		M071{V: 71},
		M072{V: 72},
		M073{V: 73},
		M074{V: 74},
		M075{V: 75},
		M076{V: 76},
		M077{V: 77},
		M078{V: 78},
		M079{V: 79},
		M080{V: 80},
		M081{V: 81},
		M082{V: 82},
		M083{V: 83},
		M084{V: 84},
		M085{V: 85},
		M086{V: 86},
		M087{V: 87},
		M088{V: 88},
		M089{V: 89},
		M090{V: 90},
		M091{V: 91},
		M092{V: 92},
		M093{V: 93},
		M094{V: 94},
		M095{V: 95},
		M096{V: 96},
		M097{V: 97},
		M098{V: 98},
		M099{V: 99},
		M100{V: 100},
		M101{V: 101},
		M102{V: 102},
		M103{V: 103},
		M104{V: 104},
		M105{V: 105},
		M106{V: 106},
		M107{V: 107},
		M108{V: 108},
		M109{V: 109},
		M110{V: 110},
		M111{V: 111},
		M112{V: 112},
		M113{V: 113},
		M114{V: 114},
		M115{V: 115},
		M116{V: 116},
		M117{V: 117},
		M118{V: 118},
		M119{V: 119},
		M120{V: 120},
		M121{V: 121},
		M122{V: 122},
		M123{V: 123},
		M124{V: 124},
		M125{V: 125},
		M126{V: 126},
		M127{V: 127},
		M128{V: 128},
		M129{V: 129},
		M130{V: 130},
		M131{V: 131},
		M132{V: 132},
		M133{V: 133},
		M134{V: 134},
		M135{V: 135},
		M136{V: 136},
		M137{V: 137},
		M138{V: 138},
		M139{V: 139},
		M140{V: 140},
		M141{V: 141},
		M142{V: 142},
		M143{V: 143},
		M144{V: 144},
		M145{V: 145},
		M146{V: 146},
		M147{V: 147},
		M148{V: 148},
		M149{V: 149},
		M150{V: 150},
		M151{V: 151},
		M152{V: 152},
		M153{V: 153},
		M154{V: 154},
		M155{V: 155},
		M156{V: 156},
		M157{V: 157},
		M158{V: 158},
		M159{V: 159},
		M160{V: 160},
		M161{V: 161},
		M162{V: 162},
		M163{V: 163},
		M164{V: 164},
		M165{V: 165},
		M166{V: 166},
		M167{V: 167},
		M168{V: 168},
		M169{V: 169},
		M170{V: 170},
		M171{V: 171},
		M172{V: 172},
		M173{V: 173},
		M174{V: 174},
		M175{V: 175},
		M176{V: 176},
		M177{V: 177},
		M178{V: 178},
		M179{V: 179},
		M180{V: 180},
		M181{V: 181},
		M182{V: 182},
		M183{V: 183},
		M184{V: 184},
		M185{V: 185},
		M186{V: 186},
		M187{V: 187},
		M188{V: 188},
		M189{V: 189},
		M190{V: 190},
		M191{V: 191},
		M192{V: 192},
		M193{V: 193},
		M194{V: 194},
		M195{V: 195},
		M196{V: 196},
		M197{V: 197},
		M198{V: 198},
		M199{V: 199},
		M200{V: 200},
		M201{V: 201},
		M202{V: 202},
		M203{V: 203},
		M204{V: 204},
		M205{V: 205},
		M206{V: 206},
		M207{V: 207},
		M208{V: 208},
		M209{V: 209},
		M210{V: 210},
		M211{V: 211},
		M212{V: 212},
		M213{V: 213},
		M214{V: 214},
		M215{V: 215},
		M216{V: 216},
		M217{V: 217},
		M218{V: 218},
		M219{V: 219},
		M220{V: 220},
		M221{V: 221},
		M222{V: 222},
		M223{V: 223},
		M224{V: 224},
		M225{V: 225},
		M226{V: 226},
		M227{V: 227},
		M228{V: 228},
		M229{V: 229},
		M230{V: 230},
		M231{V: 231},
		M232{V: 232},
		M233{V: 233},
		M234{V: 234},
		M235{V: 235},
		M236{V: 236},
		M237{V: 237},
		M238{V: 238},
		M239{V: 239},
		M240{V: 240},
		M241{V: 241},
		M242{V: 242},
		M243{V: 243},
		M244{V: 244},
		M245{V: 245},
		M246{V: 246},
		M247{V: 247},
		M248{V: 248},
		M249{V: 249},
		M250{V: 250},
		M251{V: 251},
		M252{V: 252},
		M253{V: 253},
		M254{V: 254},
		M255{V: 255},
		M256{V: 256},
		M257{V: 257},
		M258{V: 258},
		M259{V: 259},
		M260{V: 260},
		M261{V: 261},
		M262{V: 262},
		M263{V: 263},
		M264{V: 264},
		M265{V: 265},
		M266{V: 266},
		M267{V: 267},
		M268{V: 268},
		M269{V: 269},
		M270{V: 270},
		M271{V: 271},
		M272{V: 272},
		M273{V: 273},
		M274{V: 274},
		M275{V: 275},
		M276{V: 276},
		M277{V: 277},
		M278{V: 278},
		M279{V: 279},
		M280{V: 280},
		M281{V: 281},
		M282{V: 282},
		M283{V: 283},
		M284{V: 284},
		M285{V: 285},
		M286{V: 286},
		M287{V: 287},
		M288{V: 288},
		M289{V: 289},
		M290{V: 290},
		M291{V: 291},
		M292{V: 292},
		M293{V: 293},
		M294{V: 294},
		M295{V: 295},
		M296{V: 296},
		M297{V: 297},
		M298{V: 298},
		M299{V: 299},
	}
	return all[:n]
}
