// Code generated for the zoo: 400 struct types of ten fields each, used once per process each
// (what an instance does on the FIRST use of a type, while another instance is at work).
package zoo

type F000 struct {
	Alpha int32
	Beta  string
	Gamma int64
	Delta bool
	Eps   float64
	Zeta  []int32
	Eta   *Small
	Theta map[string]int32
	Iota  []string
	Kappa int16
}
type F001 struct {
	Alpha int32
	Beta  string
	Gamma int64
	Delta bool
	Eps   float64
	Zeta  []int32
	Eta   *Small
	Theta map[string]int32
	Iota  []string
	Kappa int16
}
type F002 struct {
	Alpha int32
	Beta  string
	Gamma int64
	Delta bool
	Eps   float64
	Zeta  []int32
	Eta   *Small
	Theta map[string]int32
	Iota  []string
	Kappa int16
}
type F003 struct {
	Alpha int32
	Beta  string
	Gamma int64
	Delta bool
	Eps   float64
	Zeta  []int32
	Eta   *Small
	Theta map[string]int32
	Iota  []string
	Kappa int16
}
type F004 struct {
	Alpha int32
	Beta  string
	Gamma int64
	Delta bool
	Eps   float64
	Zeta  []int32
	Eta   *Small
	Theta map[string]int32
	Iota  []string
	Kappa int16
}
type F005 struct {
	Alpha int32
	Beta  string
	Gamma int64
	Delta bool
	Eps   float64
	Zeta  []int32
	Eta   *Small
	Theta map[string]int32
	Iota  []string
	Kappa int16
}
type F006 struct {
	Alpha int32
	Beta  string
	Gamma int64
	Delta bool
	Eps   float64
	Zeta  []int32
	Eta   *Small
	Theta map[string]int32
	Iota  []string
	Kappa int16
}
type F007 struct {
	Alpha int32
	Beta  string
	Gamma int64
	Delta bool
	Eps   float64
	Zeta  []int32
	Eta   *Small
	Theta map[string]int32
	Iota  []string
	Kappa int16
}
type F008 struct {
	Alpha int32
	Beta  string
	Gamma int64
	Delta bool
	Eps   float64
	Zeta  []int32
	Eta   *Small
	Theta map[string]int32
	Iota  []string
	Kappa int16
}
type F009 struct {
	Alpha int32
	Beta  string
	Gamma int64
	Delta bool
	Eps   float64
	Zeta  []int32
	Eta   *Small
	Theta map[string]int32
	Iota  []string
	Kappa int16
}
type F010 struct {
	Alpha int32
	Beta  string
	Gamma int64
	Delta bool
	Eps   float64
	Zeta  []int32
	Eta   *Small
	Theta map[string]int32
	Iota  []string
	Kappa int16
}
type F011 struct {
	Alpha int32
	Beta  string
	Gamma int64
	Delta bool
	Eps   float64
	Zeta  []int32
	Eta   *Small
	Theta map[string]int32
	Iota  []string
	Kappa int16
}
type F012 struct {
	Alpha int32
	Beta  string
	Gamma int64
	Delta bool
	Eps   float64
	Zeta  []int32
	Eta   *Small
	Theta map[string]int32
	Iota  []string
	Kappa int16
}
type F013 struct {
	Alpha int32
	Beta  string
	Gamma int64
	Delta bool
	Eps   float64
	Zeta  []int32
	Eta   *Small
	Theta map[string]int32
	Iota  []string
	Kappa int16
}
type F014 struct {
	Alpha int32
	Beta  string
	Gamma int64
	Delta bool
	Eps   float64
	Zeta  []int32
	Eta   *Small
	Theta map[string]int32
	Iota  []string
	Kappa int16
}
type F015 struct {
	Alpha int32
	Beta  string
	Gamma int64
	Delta bool
	Eps   float64
	Zeta  []int32
	Eta   *Small
	Theta map[string]int32
	Iota  []string
	Kappa int16
}
type F016 struct {
	Alpha int32
	Beta  string
	Gamma int64
	Delta bool
	Eps   float64
	Zeta  []int32
	Eta   *Small
	Theta map[string]int32
	Iota  []string
	Kappa int16
}
type F017 struct {
	Alpha int32
	Beta  string
	Gamma int64
	Delta bool
	Eps   float64
	Zeta  []int32
	Eta   *Small
	Theta map[string]int32
	Iota  []string
	Kappa int16
}
type F018 struct {
	Alpha int32
	Beta  string
	Gamma int64
	Delta bool
	Eps   float64
	Zeta  []int32
	Eta   *Small
	Theta map[string]int32
	Iota  []string
	Kappa int16
}
type F019 struct {
	Alpha int32
	Beta  string
	Gamma int64
	Delta bool
	Eps   float64
	Zeta  []int32
	Eta   *Small
	Theta map[string]int32
	Iota  []string
	Kappa int16
}
type F020 struct {
	Alpha int32
	Beta  string
	Gamma int64
	Delta bool
	Eps   float64
	Zeta  []int32
	Eta   *Small
	Theta map[string]int32
	Iota  []string
	Kappa int16
}
type F021 struct {
	Alpha int32
	Beta  string
	Gamma int64
	Delta bool
	Eps   float64
	Zeta  []int32
	Eta   *Small
	Theta map[string]int32
	Iota  []string
	Kappa int16
}
type F022 struct {
	Alpha int32
	Beta  string
	Gamma int64
	Delta bool
	Eps   float64
	Zeta  []int32
	Eta   *Small
	Theta map[string]int32
	Iota  []string
	Kappa int16
}
type F023 struct {
	Alpha int32
	Beta  string
	Gamma int64
	Delta bool
	Eps   float64
	Zeta  []int32
	Eta   *Small
	Theta map[string]int32
	Iota  []string
	Kappa int16
}
type F024 struct {
	Alpha int32
	Beta  string
	Gamma int64
	Delta bool
	Eps   float64
	Zeta  []int32
	Eta   *Small
	Theta map[string]int32
	Iota  []string
	Kappa int16
}
type F025 struct {
	Alpha int32
	Beta  string
	Gamma int64
	Delta bool
	Eps   float64
	Zeta  []int32
	Eta   *Small
	Theta map[string]int32
	Iota  []string
	Kappa int16
}
type F026 struct {
	Alpha int32
	Beta  string
	Gamma int64
	Delta bool
	Eps   float64
	Zeta  []int32
	Eta   *Small
	Theta map[string]int32
	Iota  []string
	Kappa int16
}
type F027 struct {
	Alpha int32
	Beta  string
	Gamma int64
	Delta bool
	Eps   float64
	Zeta  []int32
	Eta   *Small
	Theta map[string]int32
	Iota  []string
	Kappa int16
}
type F028 struct {
	Alpha int32
	Beta  string
	Gamma int64
	Delta bool
	Eps   float64
	Zeta  []int32
	Eta   *Small
	Theta map[string]int32
	Iota  []string
	Kappa int16
}
type F029 struct {
	Alpha int32
	Beta  string
	Gamma int64
	Delta bool
	Eps   float64
	Zeta  []int32
	Eta   *Small
	Theta map[string]int32
	Iota  []string
	Kappa int16
}
type F030 struct {
	Alpha int32
	Beta  string
	Gamma int64
	Delta bool
	Eps   float64
	Zeta  []int32
	Eta   *Small
	Theta map[string]int32
	Iota  []string
	Kappa int16
}
type F031 struct {
	Alpha int32
	Beta  string
	Gamma int64
	Delta bool
	Eps   float64
	Zeta  []int32
	Eta   *Small
	Theta map[string]int32
	Iota  []string
	Kappa int16
}
type F032 struct {
	Alpha int32
	Beta  string
	Gamma int64
	Delta bool
	Eps   float64
	Zeta  []int32
	Eta   *Small
	Theta map[string]int32
	Iota  []string
	Kappa int16
}
type F033 struct {
	Alpha int32
	Beta  string
	Gamma int64
	Delta bool
	Eps   float64
	Zeta  []int32
	Eta   *Small
	Theta map[string]int32
	Iota  []string
	Kappa int16
}
type F034 struct {
	Alpha int32
	Beta  string
	Gamma int64
	Delta bool
	Eps   float64
	Zeta  []int32
	Eta   *Small
	Theta map[string]int32
	Iota  []string
	Kappa int16
}
type F035 struct {
	Alpha int32
	Beta  string
	Gamma int64
	Delta bool
	Eps   float64
	Zeta  []int32
	Eta   *Small
	Theta map[string]int32
	Iota  []string
	Kappa int16
}
type F036 struct {
	Alpha int32
	Beta  string
	Gamma int64
	Delta bool
	Eps   float64
	Zeta  []int32
	Eta   *Small
	Theta map[string]int32
	Iota  []string
	Kappa int16
}
type F037 struct {
	Alpha int32
	Beta  string
	Gamma int64
	Delta bool
	Eps   float64
	Zeta  []int32
	Eta   *Small
	Theta map[string]int32
	Iota  []string
	Kappa int16
}
type F038 struct {
	Alpha int32
	Beta  string
	Gamma int64
	Delta bool
	Eps   float64
	Zeta  []int32
	Eta   *Small
	Theta map[string]int32
	Iota  []string
	Kappa int16
}
type F039 struct {
	Alpha int32
	Beta  string
	Gamma int64
	Delta bool
	Eps   float64
	Zeta  []int32
	Eta   *Small
	Theta map[string]int32
	Iota  []string
	Kappa int16
}
type F040 struct {
	Alpha int32
	Beta  string
	Gamma int64
	Delta bool
	Eps   float64
	Zeta  []int32
	Eta   *Small
	Theta map[string]int32
	Iota  []string
	Kappa int16
}
type F041 struct {
	Alpha int32
	Beta  string
	Gamma int64
	Delta bool
	Eps   float64
	Zeta  []int32
	Eta   *Small
	Theta map[string]int32
	Iota  []string
	Kappa int16
}
type F042 struct {
	Alpha int32
	Beta  string
	Gamma int64
	Delta bool
	Eps   float64
	Zeta  []int32
	Eta   *Small
	Theta map[string]int32
	Iota  []string
	Kappa int16
}
type F043 struct {
	Alpha int32
	Beta  string
	Gamma int64
	Delta bool
	Eps   float64
	Zeta  []int32
	Eta   *Small
	Theta map[string]int32
	Iota  []string
	Kappa int16
}
type F044 struct {
	Alpha int32
	Beta  string
	Gamma int64
	Delta bool
	Eps   float64
	Zeta  []int32
	Eta   *Small
	Theta map[string]int32
	Iota  []string
	Kappa int16
}
type F045 struct {
	Alpha int32
	Beta  string
	Gamma int64
	Delta bool
	Eps   float64
	Zeta  []int32
	Eta   *Small
	Theta map[string]int32
	Iota  []string
	Kappa int16
}
type F046 struct {
	Alpha int32
	Beta  string
	Gamma int64
	Delta bool
	Eps   float64
	Zeta  []int32
	Eta   *Small
	Theta map[string]int32
	Iota  []string
	Kappa int16
}
type F047 struct {
	Alpha int32
	Beta  string
	Gamma int64
	Delta bool
	Eps   float64
	Zeta  []int32
	Eta   *Small
	Theta map[string]int32
	Iota  []string
	Kappa int16
}
type F048 struct {
	Alpha int32
	Beta  string
	Gamma int64
	Delta bool
	Eps   float64
	Zeta  []int32
	Eta   *Small
	Theta map[string]int32
	Iota  []string
	Kappa int16
}
type F049 struct {
	Alpha int32
	Beta  string
	Gamma int64
	Delta bool
	Eps   float64
	Zeta  []int32
	Eta   *Small
	Theta map[string]int32
	Iota  []string
	Kappa int16
}
type F050 struct {
	Alpha int32
	Beta  string
	Gamma int64
	Delta bool
	Eps   float64
	Zeta  []int32
	Eta   *Small
	Theta map[string]int32
	Iota  []string
	Kappa int16
}
type F051 struct {
	Alpha int32
	Beta  string
	Gamma int64
	Delta bool
	Eps   float64
	Zeta  []int32
	Eta   *Small
	Theta map[string]int32
	Iota  []string
	Kappa int16
}
type F052 struct {
	Alpha int32
	Beta  string
	Gamma int64
	Delta bool
	Eps   float64
	Zeta  []int32
	Eta   *Small
	Theta map[string]int32
	Iota  []string
	Kappa int16
}
type F053 struct {
	Alpha int32
	Beta  string
	Gamma int64
	Delta bool
	Eps   float64
	Zeta  []int32
	Eta   *Small
	Theta map[string]int32
	Iota  []string
	Kappa int16
}
type F054 struct {
	Alpha int32
	Beta  string
	Gamma int64
	Delta bool
	Eps   float64
	Zeta  []int32
	Eta   *Small
	Theta map[string]int32
	Iota  []string
	Kappa int16
}
type F055 struct {
	Alpha int32
	Beta  string
	Gamma int64
	Delta bool
	Eps   float64
	Zeta  []int32
	Eta   *Small
	Theta map[string]int32
	Iota  []string
	Kappa int16
}
type F056 struct {
	Alpha int32
	Beta  string
	Gamma int64
	Delta bool
	Eps   float64
	Zeta  []int32
	Eta   *Small
	Theta map[string]int32
	Iota  []string
	Kappa int16
}
type F057 struct {
	Alpha int32
	Beta  string
	Gamma int64
	Delta bool
	Eps   float64
	Zeta  []int32
	Eta   *Small
	Theta map[string]int32
	Iota  []string
	Kappa int16
}
type F058 struct {
	Alpha int32
	Beta  string
	Gamma int64
	Delta bool
	Eps   float64
	Zeta  []int32
	Eta   *Small
	Theta map[string]int32
	Iota  []string
	Kappa int16
}
type F059 struct {
	Alpha int32
	Beta  string
	Gamma int64
	Delta bool
	Eps   float64
	Zeta  []int32
	Eta   *Small
	Theta map[string]int32
	Iota  []string
	Kappa int16
}
type F060 struct {
	Alpha int32
	Beta  string
	Gamma int64
	Delta bool
	Eps   float64
	Zeta  []int32
	Eta   *Small
	Theta map[string]int32
	Iota  []string
	Kappa int16
}
type F061 struct {
	Alpha int32
	Beta  string
	Gamma int64
	Delta bool
	Eps   float64
	Zeta  []int32
	Eta   *Small
	Theta map[string]int32
	Iota  []string
	Kappa int16
}
type F062 struct {
	Alpha int32
	Beta  string
	Gamma int64
	Delta bool
	Eps   float64
	Zeta  []int32
	Eta   *Small
	Theta map[string]int32
	Iota  []string
	Kappa int16
}
type F063 struct {
	Alpha int32
	Beta  string
	Gamma int64
	Delta bool
	Eps   float64
	Zeta  []int32
	Eta   *Small
	Theta map[string]int32
	Iota  []string
	Kappa int16
}
type F064 struct {
	Alpha int32
	Beta  string
	Gamma int64
	Delta bool
	Eps   float64
	Zeta  []int32
	Eta   *Small
	Theta map[string]int32
	Iota  []string
	Kappa int16
}
type F065 struct {
	Alpha int32
	Beta  string
	Gamma int64
	Delta bool
	Eps   float64
	Zeta  []int32
	Eta   *Small
	Theta map[string]int32
	Iota  []string
	Kappa int16
}
type F066 struct {
	Alpha int32
	Beta  string
	Gamma int64
	Delta bool
	Eps   float64
	Zeta  []int32
	Eta   *Small
	Theta map[string]int32
	Iota  []string
	Kappa int16
}
type F067 struct {
	Alpha int32
	Beta  string
	Gamma int64
	Delta bool
	Eps   float64
	Zeta  []int32
	Eta   *Small
	Theta map[string]int32
	Iota  []string
	Kappa int16
}
type F068 struct {
	Alpha int32
	Beta  string
	Gamma int64
	Delta bool
	Eps   float64
	Zeta  []int32
	Eta   *Small
	Theta map[string]int32
	Iota  []string
	Kappa int16
}
type F069 struct {
	Alpha int32
	Beta  string
	Gamma int64
	Delta bool
	Eps   float64
	Zeta  []int32
	Eta   *Small
	Theta map[string]int32
	Iota  []string
	Kappa int16
}
type F070 struct {
	Alpha int32
	Beta  string
	Gamma int64
	Delta bool
	Eps   float64
	Zeta  []int32
	Eta   *Small
	Theta map[string]int32
	Iota  []string
	Kappa int16
}
type F071 struct {
	Alpha int32
	Beta  string
	Gamma int64
	Delta bool
	Eps   float64
	Zeta  []int32
	Eta   *Small
	Theta map[string]int32
	Iota  []string
	Kappa int16
}
type F072 struct {
	Alpha int32
	Beta  string
	Gamma int64
	Delta bool
	Eps   float64
	Zeta  []int32
	Eta   *Small
	Theta map[string]int32
	Iota  []string
	Kappa int16
}
type F073 struct {
	Alpha int32
	Beta  string
	Gamma int64
	Delta bool
	Eps   float64
	Zeta  []int32
	Eta   *Small
	Theta map[string]int32
	Iota  []string
	Kappa int16
}
type F074 struct {
	Alpha int32
	Beta  string
	Gamma int64
	Delta bool
	Eps   float64
	Zeta  []int32
	Eta   *Small
	Theta map[string]int32
	Iota  []string
	Kappa int16
}
type F075 struct {
	Alpha int32
	Beta  string
	Gamma int64
	Delta bool
	Eps   float64
	Zeta  []int32
	Eta   *Small
	Theta map[string]int32
	Iota  []string
	Kappa int16
}
type F076 struct {
	Alpha int32
	Beta  string
	Gamma int64
	Delta bool
	Eps   float64
	Zeta  []int32
	Eta   *Small
	Theta map[string]int32
	Iota  []string
	Kappa int16
}
type F077 struct {
	Alpha int32
	Beta  string
	Gamma int64
	Delta bool
	Eps   float64
	Zeta  []int32
	Eta   *Small
	Theta map[string]int32
	Iota  []string
	Kappa int16
}
type F078 struct {
	Alpha int32
	Beta  string
	Gamma int64
	Delta bool
	Eps   float64
	Zeta  []int32
	Eta   *Small
	Theta map[string]int32
	Iota  []string
	Kappa int16
}
type F079 struct {
	Alpha int32
	Beta  string
	Gamma int64
	Delta bool
	Eps   float64
	Zeta  []int32
	Eta   *Small
	Theta map[string]int32
	Iota  []string
	Kappa int16
}
type F080 struct {
	Alpha int32
	Beta  string
	Gamma int64
	Delta bool
	Eps   float64
	Zeta  []int32
	Eta   *Small
	Theta map[string]int32
	Iota  []string
	Kappa int16
}
type F081 struct {
	Alpha int32
	Beta  string
	Gamma int64
	Delta bool
	Eps   float64
	Zeta  []int32
	Eta   *Small
	Theta map[string]int32
	Iota  []string
	Kappa int16
}
type F082 struct {
	Alpha int32
	Beta  string
	Gamma int64
	Delta bool
	Eps   float64
	Zeta  []int32
	Eta   *Small
	Theta map[string]int32
	Iota  []string
	Kappa int16
}
type F083 struct {
	Alpha int32
	Beta  string
	Gamma int64
	Delta bool
	Eps   float64
	Zeta  []int32
	Eta   *Small
	Theta map[string]int32
	Iota  []string
	Kappa int16
}
type F084 struct {
	Alpha int32
	Beta  string
	Gamma int64
	Delta bool
	Eps   float64
	Zeta  []int32
	Eta   *Small
	Theta map[string]int32
	Iota  []string
	Kappa int16
}
type F085 struct {
	Alpha int32
	Beta  string
	Gamma int64
	Delta bool
	Eps   float64
	Zeta  []int32
	Eta   *Small
	Theta map[string]int32
	Iota  []string
	Kappa int16
}
type F086 struct {
	Alpha int32
	Beta  string
	Gamma int64
	Delta bool
	Eps   float64
	Zeta  []int32
	Eta   *Small
	Theta map[string]int32
	Iota  []string
	Kappa int16
}
type F087 struct {
	Alpha int32
	Beta  string
	Gamma int64
	Delta bool
	Eps   float64
	Zeta  []int32
	Eta   *Small
	Theta map[string]int32
	Iota  []string
	Kappa int16
}
type F088 struct {
	Alpha int32
	Beta  string
	Gamma int64
	Delta bool
	Eps   float64
	Zeta  []int32
	Eta   *Small
	Theta map[string]int32
	Iota  []string
	Kappa int16
}
type F089 struct {
	Alpha int32
	Beta  string
	Gamma int64
	Delta bool
	Eps   float64
	Zeta  []int32
	Eta   *Small
	Theta map[string]int32
	Iota  []string
	Kappa int16
}
type F090 struct {
	Alpha int32
	Beta  string
	Gamma int64
	Delta bool
	Eps   float64
	Zeta  []int32
	Eta   *Small
	Theta map[string]int32
	Iota  []string
	Kappa int16
}
type F091 struct {
	Alpha int32
	Beta  string
	Gamma int64
	Delta bool
	Eps   float64
	Zeta  []int32
	Eta   *Small
	Theta map[string]int32
	Iota  []string
	Kappa int16
}
type F092 struct {
	Alpha int32
	Beta  string
	Gamma int64
	Delta bool
	Eps   float64
	Zeta  []int32
	Eta   *Small
	Theta map[string]int32
	Iota  []string
	Kappa int16
}
type F093 struct {
	Alpha int32
	Beta  string
	Gamma int64
	Delta bool
	Eps   float64
	Zeta  []int32
	Eta   *Small
	Theta map[string]int32
	Iota  []string
	Kappa int16
}
type F094 struct {
	Alpha int32
	Beta  string
	Gamma int64
	Delta bool
	Eps   float64
	Zeta  []int32
	Eta   *Small
	Theta map[string]int32
	Iota  []string
	Kappa int16
}
type F095 struct {
	Alpha int32
	Beta  string
	Gamma int64
	Delta bool
	Eps   float64
	Zeta  []int32
	Eta   *Small
	Theta map[string]int32
	Iota  []string
	Kappa int16
}
type F096 struct {
	Alpha int32
	Beta  string
	Gamma int64
	Delta bool
	Eps   float64
	Zeta  []int32
	Eta   *Small
	Theta map[string]int32
	Iota  []string
	Kappa int16
}
type F097 struct {
	Alpha int32
	Beta  string
	Gamma int64
	Delta bool
	Eps   float64
	Zeta  []int32
	Eta   *Small
	Theta map[string]int32
	Iota  []string
	Kappa int16
}
type F098 struct {
	Alpha int32
	Beta  string
	Gamma int64
	Delta bool
	Eps   float64
	Zeta  []int32
	Eta   *Small
	Theta map[string]int32
	Iota  []string
	Kappa int16
}
type F099 struct {
	Alpha int32
	Beta  string
	Gamma int64
	Delta bool
	Eps   float64
	Zeta  []int32
	Eta   *Small
	Theta map[string]int32
	Iota  []string
	Kappa int16
}
type F100 struct {
	Alpha int32
	Beta  string
	Gamma int64
	Delta bool
	Eps   float64
	Zeta  []int32
	Eta   *Small
	Theta map[string]int32
	Iota  []string
	Kappa int16
}
type F101 struct {
	Alpha int32
	Beta  string
	Gamma int64
	Delta bool
	Eps   float64
	Zeta  []int32
	Eta   *Small
	Theta map[string]int32
	Iota  []string
	Kappa int16
}
type F102 struct {
	Alpha int32
	Beta  string
	Gamma int64
	Delta bool
	Eps   float64
	Zeta  []int32
	Eta   *Small
	Theta map[string]int32
	Iota  []string
	Kappa int16
}
type F103 struct {
	Alpha int32
	Beta  string
	Gamma int64
	Delta bool
	Eps   float64
	Zeta  []int32
	Eta   *Small
	Theta map[string]int32
	Iota  []string
	Kappa int16
}
type F104 struct {
	Alpha int32
	Beta  string
	Gamma int64
	Delta bool
	Eps   float64
	Zeta  []int32
	Eta   *Small
	Theta map[string]int32
	Iota  []string
	Kappa int16
}
type F105 struct {
	Alpha int32
	Beta  string
	Gamma int64
	Delta bool
	Eps   float64
	Zeta  []int32
	Eta   *Small
	Theta map[string]int32
	Iota  []string
	Kappa int16
}
type F106 struct {
	Alpha int32
	Beta  string
	Gamma int64
	Delta bool
	Eps   float64
	Zeta  []int32
	Eta   *Small
	Theta map[string]int32
	Iota  []string
	Kappa int16
}
type F107 struct {
	Alpha int32
	Beta  string
	Gamma int64
	Delta bool
	Eps   float64
	Zeta  []int32
	Eta   *Small
	Theta map[string]int32
	Iota  []string
	Kappa int16
}
type F108 struct {
	Alpha int32
	Beta  string
	Gamma int64
	Delta bool
	Eps   float64
	Zeta  []int32
	Eta   *Small
	Theta map[string]int32
	Iota  []string
	Kappa int16
}
type F109 struct {
	Alpha int32
	Beta  string
	Gamma int64
	Delta bool
	Eps   float64
	Zeta  []int32
	Eta   *Small
	Theta map[string]int32
	Iota  []string
	Kappa int16
}
type F110 struct {
	Alpha int32
	Beta  string
	Gamma int64
	Delta bool
	Eps   float64
	Zeta  []int32
	Eta   *Small
	Theta map[string]int32
	Iota  []string
	Kappa int16
}
type F111 struct {
	Alpha int32
	Beta  string
	Gamma int64
	Delta bool
	Eps   float64
	Zeta  []int32
	Eta   *Small
	Theta map[string]int32
	Iota  []string
	Kappa int16
}
type F112 struct {
	Alpha int32
	Beta  string
	Gamma int64
	Delta bool
	Eps   float64
	Zeta  []int32
	Eta   *Small
	Theta map[string]int32
	Iota  []string
	Kappa int16
}
type F113 struct {
	Alpha int32
	Beta  string
	Gamma int64
	Delta bool
	Eps   float64
	Zeta  []int32
	Eta   *Small
	Theta map[string]int32
	Iota  []string
	Kappa int16
}
type F114 struct {
	Alpha int32
	Beta  string
	Gamma int64
	Delta bool
	Eps   float64
	Zeta  []int32
	Eta   *Small
	Theta map[string]int32
	Iota  []string
	Kappa int16
}
type F115 struct {
	Alpha int32
	Beta  string
	Gamma int64
	Delta bool
	Eps   float64
	Zeta  []int32
	Eta   *Small
	Theta map[string]int32
	Iota  []string
	Kappa int16
}
type F116 struct {
	Alpha int32
	Beta  string
	Gamma int64
	Delta bool
	Eps   float64
	Zeta  []int32
	Eta   *Small
	Theta map[string]int32
	Iota  []string
	Kappa int16
}
type F117 struct {
	Alpha int32
	Beta  string
	Gamma int64
	Delta bool
	Eps   float64
	Zeta  []int32
	Eta   *Small
	Theta map[string]int32
	Iota  []string
	Kappa int16
}
type F118 struct {
	Alpha int32
	Beta  string
	Gamma int64
	Delta bool
	Eps   float64
	Zeta  []int32
	Eta   *Small
	Theta map[string]int32
	Iota  []string
	Kappa int16
}
type F119 struct {
	Alpha int32
	Beta  string
	Gamma int64
	Delta bool
	Eps   float64
	Zeta  []int32
	Eta   *Small
	Theta map[string]int32
	Iota  []string
	Kappa int16
}
type F120 struct {
	Alpha int32
	Beta  string
	Gamma int64
	Delta bool
	Eps   float64
	Zeta  []int32
	Eta   *Small
	Theta map[string]int32
	Iota  []string
	Kappa int16
}
type F121 struct {
	Alpha int32
	Beta  string
	Gamma int64
	Delta bool
	Eps   float64
	Zeta  []int32
	Eta   *Small
	Theta map[string]int32
	Iota  []string
	Kappa int16
}
type F122 struct {
	Alpha int32
	Beta  string
	Gamma int64
	Delta bool
	Eps   float64
	Zeta  []int32
	Eta   *Small
	Theta map[string]int32
	Iota  []string
	Kappa int16
}
type F123 struct {
	Alpha int32
	Beta  string
	Gamma int64
	Delta bool
	Eps   float64
	Zeta  []int32
	Eta   *Small
	Theta map[string]int32
	Iota  []string
	Kappa int16
}
type F124 struct {
	Alpha int32
	Beta  string
	Gamma int64
	Delta bool
	Eps   float64
	Zeta  []int32
	Eta   *Small
	Theta map[string]int32
	Iota  []string
	Kappa int16
}
type F125 struct {
	Alpha int32
	Beta  string
	Gamma int64
	Delta bool
	Eps   float64
	Zeta  []int32
	Eta   *Small
	Theta map[string]int32
	Iota  []string
	Kappa int16
}
type F126 struct {
	Alpha int32
	Beta  string
	Gamma int64
	Delta bool
	Eps   float64
	Zeta  []int32
	Eta   *Small
	Theta map[string]int32
	Iota  []string
	Kappa int16
}
type F127 struct {
	Alpha int32
	Beta  string
	Gamma int64
	Delta bool
	Eps   float64
	Zeta  []int32
	Eta   *Small
	Theta map[string]int32
	Iota  []string
	Kappa int16
}
type F128 struct {
	Alpha int32
	Beta  string
	Gamma int64
	Delta bool
	Eps   float64
	Zeta  []int32
	Eta   *Small
	Theta map[string]int32
	Iota  []string
	Kappa int16
}
type F129 struct {
	Alpha int32
	Beta  string
	Gamma int64
	Delta bool
	Eps   float64
	Zeta  []int32
	Eta   *Small
	Theta map[string]int32
	Iota  []string
	Kappa int16
}
type F130 struct {
	Alpha int32
	Beta  string
	Gamma int64
	Delta bool
	Eps   float64
	Zeta  []int32
	Eta   *Small
	Theta map[string]int32
	Iota  []string
	Kappa int16
}
type F131 struct {
	Alpha int32
	Beta  string
	Gamma int64
	Delta bool
	Eps   float64
	Zeta  []int32
	Eta   *Small
	Theta map[string]int32
	Iota  []string
	Kappa int16
}
type F132 struct {
	Alpha int32
	Beta  string
	Gamma int64
	Delta bool
	Eps   float64
	Zeta  []int32
	Eta   *Small
	Theta map[string]int32
	Iota  []string
	Kappa int16
}
type F133 struct {
	Alpha int32
	Beta  string
	Gamma int64
	Delta bool
	Eps   float64
	Zeta  []int32
	Eta   *Small
	Theta map[string]int32
	Iota  []string
	Kappa int16
}
type F134 struct {
	Alpha int32
	Beta  string
	Gamma int64
	Delta bool
	Eps   float64
	Zeta  []int32
	Eta   *Small
	Theta map[string]int32
	Iota  []string
	Kappa int16
}
type F135 struct {
	Alpha int32
	Beta  string
	Gamma int64
	Delta bool
	Eps   float64
	Zeta  []int32
	Eta   *Small
	Theta map[string]int32
	Iota  []string
	Kappa int16
}
type F136 struct {
	Alpha int32
	Beta  string
	Gamma int64
	Delta bool
	Eps   float64
	Zeta  []int32
	Eta   *Small
	Theta map[string]int32
	Iota  []string
	Kappa int16
}
type F137 struct {
	Alpha int32
	Beta  string
	Gamma int64
	Delta bool
	Eps   float64
	Zeta  []int32
	Eta   *Small
	Theta map[string]int32
	Iota  []string
	Kappa int16
}
type F138 struct {
	Alpha int32
	Beta  string
	Gamma int64
	Delta bool
	Eps   float64
	Zeta  []int32
	Eta   *Small
	Theta map[string]int32
	Iota  []string
	Kappa int16
}
type F139 struct {
	Alpha int32
	Beta  string
	Gamma int64
	Delta bool
	Eps   float64
	Zeta  []int32
	Eta   *Small
	Theta map[string]int32
	Iota  []string
	Kappa int16
}
type F140 struct {
	Alpha int32
	Beta  string
	Gamma int64
	Delta bool
	Eps   float64
	Zeta  []int32
	Eta   *Small
	Theta map[string]int32
	Iota  []string
	Kappa int16
}
type F141 struct {
	Alpha int32
	Beta  string
	Gamma int64
	Delta bool
	Eps   float64
	Zeta  []int32
	Eta   *Small
	Theta map[string]int32
	Iota  []string
	Kappa int16
}
type F142 struct {
	Alpha int32
	Beta  string
	Gamma int64
	Delta bool
	Eps   float64
	Zeta  []int32
	Eta   *Small
	Theta map[string]int32
	Iota  []string
	Kappa int16
}
type F143 struct {
	Alpha int32
	Beta  string
	Gamma int64
	Delta bool
	Eps   float64
	Zeta  []int32
	Eta   *Small
	Theta map[string]int32
	Iota  []string
	Kappa int16
}
type F144 struct {
	Alpha int32
	Beta  string
	Gamma int64
	Delta bool
	Eps   float64
	Zeta  []int32
	Eta   *Small
	Theta map[string]int32
	Iota  []string
	Kappa int16
}
type F145 struct {
	Alpha int32
	Beta  string
	Gamma int64
	Delta bool
	Eps   float64
	Zeta  []int32
	Eta   *Small
	Theta map[string]int32
	Iota  []string
	Kappa int16
}
type F146 struct {
	Alpha int32
	Beta  string
	Gamma int64
	Delta bool
	Eps   float64
	Zeta  []int32
	Eta   *Small
	Theta map[string]int32
	Iota  []string
	Kappa int16
}
type F147 struct {
	Alpha int32
	Beta  string
	Gamma int64
	Delta bool
	Eps   float64
	Zeta  []int32
	Eta   *Small
	Theta map[string]int32
	Iota  []string
	Kappa int16
}
type F148 struct {
	Alpha int32
	Beta  string
	Gamma int64
	Delta bool
	Eps   float64
	Zeta  []int32
	Eta   *Small
	Theta map[string]int32
	Iota  []string
	Kappa int16
}
type F149 struct {
	Alpha int32
	Beta  string
	Gamma int64
	Delta bool
	Eps   float64
	Zeta  []int32
	Eta   *Small
	Theta map[string]int32
	Iota  []string
	Kappa int16
}
type F150 struct {
	Alpha int32
	Beta  string
	Gamma int64
	Delta bool
	Eps   float64
	Zeta  []int32
	Eta   *Small
	Theta map[string]int32
	Iota  []string
	Kappa int16
}
type F151 struct {
	Alpha int32
	Beta  string
	Gamma int64
	Delta bool
	Eps   float64
	Zeta  []int32
	Eta   *Small
	Theta map[string]int32
	Iota  []string
	Kappa int16
}
type F152 struct {
	Alpha int32
	Beta  string
	Gamma int64
	Delta bool
	Eps   float64
	Zeta  []int32
	Eta   *Small
	Theta map[string]int32
	Iota  []string
	Kappa int16
}
type F153 struct {
	Alpha int32
	Beta  string
	Gamma int64
	Delta bool
	Eps   float64
	Zeta  []int32
	Eta   *Small
	Theta map[string]int32
	Iota  []string
	Kappa int16
}
type F154 struct {
	Alpha int32
	Beta  string
	Gamma int64
	Delta bool
	Eps   float64
	Zeta  []int32
	Eta   *Small
	Theta map[string]int32
	Iota  []string
	Kappa int16
}
type F155 struct {
	Alpha int32
	Beta  string
	Gamma int64
	Delta bool
	Eps   float64
	Zeta  []int32
	Eta   *Small
	Theta map[string]int32
	Iota  []string
	Kappa int16
}
type F156 struct {
	Alpha int32
	Beta  string
	Gamma int64
	Delta bool
	Eps   float64
	Zeta  []int32
	Eta   *Small
	Theta map[string]int32
	Iota  []string
	Kappa int16
}
type F157 struct {
	Alpha int32
	Beta  string
	Gamma int64
	Delta bool
	Eps   float64
	Zeta  []int32
	Eta   *Small
	Theta map[string]int32
	Iota  []string
	Kappa int16
}
type F158 struct {
	Alpha int32
	Beta  string
	Gamma int64
	Delta bool
	Eps   float64
	Zeta  []int32
	Eta   *Small
	Theta map[string]int32
	Iota  []string
	Kappa int16
}
type F159 struct {
	Alpha int32
	Beta  string
	Gamma int64
	Delta bool
	Eps   float64
	Zeta  []int32
	Eta   *Small
	Theta map[string]int32
	Iota  []string
	Kappa int16
}
type F160 struct {
	Alpha int32
	Beta  string
	Gamma int64
	Delta bool
	Eps   float64
	Zeta  []int32
	Eta   *Small
	Theta map[string]int32
	Iota  []string
	Kappa int16
}
type F161 struct {
	Alpha int32
	Beta  string
	Gamma int64
	Delta bool
	Eps   float64
	Zeta  []int32
	Eta   *Small
	Theta map[string]int32
	Iota  []string
	Kappa int16
}
type F162 struct {
	Alpha int32
	Beta  string
	Gamma int64
	Delta bool
	Eps   float64
	Zeta  []int32
	Eta   *Small
	Theta map[string]int32
	Iota  []string
	Kappa int16
}
type F163 struct {
	Alpha int32
	Beta  string
	Gamma int64
	Delta bool
	Eps   float64
	Zeta  []int32
	Eta   *Small
	Theta map[string]int32
	Iota  []string
	Kappa int16
}
type F164 struct {
	Alpha int32
	Beta  string
	Gamma int64
	Delta bool
	Eps   float64
	Zeta  []int32
	Eta   *Small
	Theta map[string]int32
	Iota  []string
	Kappa int16
}
type F165 struct {
	Alpha int32
	Beta  string
	Gamma int64
	Delta bool
	Eps   float64
	Zeta  []int32
	Eta   *Small
	Theta map[string]int32
	Iota  []string
	Kappa int16
}
type F166 struct {
	Alpha int32
	Beta  string
	Gamma int64
	Delta bool
	Eps   float64
	Zeta  []int32
	Eta   *Small
	Theta map[string]int32
	Iota  []string
	Kappa int16
}
type F167 struct {
	Alpha int32
	Beta  string
	Gamma int64
	Delta bool
	Eps   float64
	Zeta  []int32
	Eta   *Small
	Theta map[string]int32
	Iota  []string
	Kappa int16
}
type F168 struct {
	Alpha int32
	Beta  string
	Gamma int64
	Delta bool
	Eps   float64
	Zeta  []int32
	Eta   *Small
	Theta map[string]int32
	Iota  []string
	Kappa int16
}
type F169 struct {
	Alpha int32
	Beta  string
	Gamma int64
	Delta bool
	Eps   float64
	Zeta  []int32
	Eta   *Small
	Theta map[string]int32
	Iota  []string
	Kappa int16
}
type F170 struct {
	Alpha int32
	Beta  string
	Gamma int64
	Delta bool
	Eps   float64
	Zeta  []int32
	Eta   *Small
	Theta map[string]int32
	Iota  []string
	Kappa int16
}
type F171 struct {
	Alpha int32
	Beta  string
	Gamma int64
	Delta bool
	Eps   float64
	Zeta  []int32
	Eta   *Small
	Theta map[string]int32
	Iota  []string
	Kappa int16
}
type F172 struct {
	Alpha int32
	Beta  string
	Gamma int64
	Delta bool
	Eps   float64
	Zeta  []int32
	Eta   *Small
	Theta map[string]int32
	Iota  []string
	Kappa int16
}
type F173 struct {
	Alpha int32
	Beta  string
	Gamma int64
	Delta bool
	Eps   float64
	Zeta  []int32
	Eta   *Small
	Theta map[string]int32
	Iota  []string
	Kappa int16
}
type F174 struct {
	Alpha int32
	Beta  string
	Gamma int64
	Delta bool
	Eps   float64
	Zeta  []int32
	Eta   *Small
	Theta map[string]int32
	Iota  []string
	Kappa int16
}
type F175 struct {
	Alpha int32
	Beta  string
	Gamma int64
	Delta bool
	Eps   float64
	Zeta  []int32
	Eta   *Small
	Theta map[string]int32
	Iota  []string
	Kappa int16
}
type F176 struct {
	Alpha int32
	Beta  string
	Gamma int64
	Delta bool
	Eps   float64
	Zeta  []int32
	Eta   *Small
	Theta map[string]int32
	Iota  []string
	Kappa int16
}
type F177 struct {
	Alpha int32
	Beta  string
	Gamma int64
	Delta bool
	Eps   float64
	Zeta  []int32
	Eta   *Small
	Theta map[string]int32
	Iota  []string
	Kappa int16
}
type F178 struct {
	Alpha int32
	Beta  string
	Gamma int64
	Delta bool
	Eps   float64
	Zeta  []int32
	Eta   *Small
	Theta map[string]int32
	Iota  []string
	Kappa int16
}
type F179 struct {
	Alpha int32
	Beta  string
	Gamma int64
	Delta bool
	Eps   float64
	Zeta  []int32
	Eta   *Small
	Theta map[string]int32
	Iota  []string
	Kappa int16
}
type F180 struct {
	Alpha int32
	Beta  string
	Gamma int64
	Delta bool
	Eps   float64
	Zeta  []int32
	Eta   *Small
	Theta map[string]int32
	Iota  []string
	Kappa int16
}
type F181 struct {
	Alpha int32
	Beta  string
	Gamma int64
	Delta bool
	Eps   float64
	Zeta  []int32
	Eta   *Small
	Theta map[string]int32
	Iota  []string
	Kappa int16
}
type F182 struct {
	Alpha int32
	Beta  string
	Gamma int64
	Delta bool
	Eps   float64
	Zeta  []int32
	Eta   *Small
	Theta map[string]int32
	Iota  []string
	Kappa int16
}
type F183 struct {
	Alpha int32
	Beta  string
	Gamma int64
	Delta bool
	Eps   float64
	Zeta  []int32
	Eta   *Small
	Theta map[string]int32
	Iota  []string
	Kappa int16
}
type F184 struct {
	Alpha int32
	Beta  string
	Gamma int64
	Delta bool
	Eps   float64
	Zeta  []int32
	Eta   *Small
	Theta map[string]int32
	Iota  []string
	Kappa int16
}
type F185 struct {
	Alpha int32
	Beta  string
	Gamma int64
	Delta bool
	Eps   float64
	Zeta  []int32
	Eta   *Small
	Theta map[string]int32
	Iota  []string
	Kappa int16
}
type F186 struct {
	Alpha int32
	Beta  string
	Gamma int64
	Delta bool
	Eps   float64
	Zeta  []int32
	Eta   *Small
	Theta map[string]int32
	Iota  []string
	Kappa int16
}
type F187 struct {
	Alpha int32
	Beta  string
	Gamma int64
	Delta bool
	Eps   float64
	Zeta  []int32
	Eta   *Small
	Theta map[string]int32
	Iota  []string
	Kappa int16
}
type F188 struct {
	Alpha int32
	Beta  string
	Gamma int64
	Delta bool
	Eps   float64
	Zeta  []int32
	Eta   *Small
	Theta map[string]int32
	Iota  []string
	Kappa int16
}
type F189 struct {
	Alpha int32
	Beta  string
	Gamma int64
	Delta bool
	Eps   float64
	Zeta  []int32
	Eta   *Small
	Theta map[string]int32
	Iota  []string
	Kappa int16
}
type F190 struct {
	Alpha int32
	Beta  string
	Gamma int64
	Delta bool
	Eps   float64
	Zeta  []int32
	Eta   *Small
	Theta map[string]int32
	Iota  []string
	Kappa int16
}
type F191 struct {
	Alpha int32
	Beta  string
	Gamma int64
	Delta bool
	Eps   float64
	Zeta  []int32
	Eta   *Small
	Theta map[string]int32
	Iota  []string
	Kappa int16
}
type F192 struct {
	Alpha int32
	Beta  string
	Gamma int64
	Delta bool
	Eps   float64
	Zeta  []int32
	Eta   *Small
	Theta map[string]int32
	Iota  []string
	Kappa int16
}
type F193 struct {
	Alpha int32
	Beta  string
	Gamma int64
	Delta bool
	Eps   float64
	Zeta  []int32
	Eta   *Small
	Theta map[string]int32
	Iota  []string
	Kappa int16
}
type F194 struct {
	Alpha int32
	Beta  string
	Gamma int64
	Delta bool
	Eps   float64
	Zeta  []int32
	Eta   *Small
	Theta map[string]int32
	Iota  []string
	Kappa int16
}
type F195 struct {
	Alpha int32
	Beta  string
	Gamma int64
	Delta bool
	Eps   float64
	Zeta  []int32
	Eta   *Small
	Theta map[string]int32
	Iota  []string
	Kappa int16
}
type F196 struct {
	Alpha int32
	Beta  string
	Gamma int64
	Delta bool
	Eps   float64
	Zeta  []int32
	Eta   *Small
	Theta map[string]int32
	Iota  []string
	Kappa int16
}
type F197 struct {
	Alpha int32
	Beta  string
	Gamma int64
	Delta bool
	Eps   float64
	Zeta  []int32
	Eta   *Small
	Theta map[string]int32
	Iota  []string
	Kappa int16
}
type F198 struct {
	Alpha int32
	Beta  string
	Gamma int64
	Delta bool
	Eps   float64
	Zeta  []int32
	Eta   *Small
	Theta map[string]int32
	Iota  []string
	Kappa int16
}
type F199 struct {
	Alpha int32
	Beta  string
	Gamma int64
	Delta bool
	Eps   float64
	Zeta  []int32
	Eta   *Small
	Theta map[string]int32
	Iota  []string
	Kappa int16
}
type F200 struct {
	Alpha int32
	Beta  string
	Gamma int64
	Delta bool
	Eps   float64
	Zeta  []int32
	Eta   *Small
	Theta map[string]int32
	Iota  []string
	Kappa int16
}
type F201 struct {
	Alpha int32
	Beta  string
	Gamma int64
	Delta bool
	Eps   float64
	Zeta  []int32
	Eta   *Small
	Theta map[string]int32
	Iota  []string
	Kappa int16
}
type F202 struct {
	Alpha int32
	Beta  string
	Gamma int64
	Delta bool
	Eps   float64
	Zeta  []int32
	Eta   *Small
	Theta map[string]int32
	Iota  []string
	Kappa int16
}
type F203 struct {
	Alpha int32
	Beta  string
	Gamma int64
	Delta bool
	Eps   float64
	Zeta  []int32
	Eta   *Small
	Theta map[string]int32
	Iota  []string
	Kappa int16
}
type F204 struct {
	Alpha int32
	Beta  string
	Gamma int64
	Delta bool
	Eps   float64
	Zeta  []int32
	Eta   *Small
	Theta map[string]int32
	Iota  []string
	Kappa int16
}
type F205 struct {
	Alpha int32
	Beta  string
	Gamma int64
	Delta bool
	Eps   float64
	Zeta  []int32
	Eta   *Small
	Theta map[string]int32
	Iota  []string
	Kappa int16
}
type F206 struct {
	Alpha int32
	Beta  string
	Gamma int64
	Delta bool
	Eps   float64
	Zeta  []int32
	Eta   *Small
	Theta map[string]int32
	Iota  []string
	Kappa int16
}
type F207 struct {
	Alpha int32
	Beta  string
	Gamma int64
	Delta bool
	Eps   float64
	Zeta  []int32
	Eta   *Small
	Theta map[string]int32
	Iota  []string
	Kappa int16
}
type F208 struct {
	Alpha int32
	Beta  string
	Gamma int64
	Delta bool
	Eps   float64
	Zeta  []int32
	Eta   *Small
	Theta map[string]int32
	Iota  []string
	Kappa int16
}
type F209 struct {
	Alpha int32
	Beta  string
	Gamma int64
	Delta bool
	Eps   float64
	Zeta  []int32
	Eta   *Small
	Theta map[string]int32
	Iota  []string
	Kappa int16
}
type F210 struct {
	Alpha int32
	Beta  string
	Gamma int64
	Delta bool
	Eps   float64
	Zeta  []int32
	Eta   *Small
	Theta map[string]int32
	Iota  []string
	Kappa int16
}
type F211 struct {
	Alpha int32
	Beta  string
	Gamma int64
	Delta bool
	Eps   float64
	Zeta  []int32
	Eta   *Small
	Theta map[string]int32
	Iota  []string
	Kappa int16
}
type F212 struct {
	Alpha int32
	Beta  string
	Gamma int64
	Delta bool
	Eps   float64
	Zeta  []int32
	Eta   *Small
	Theta map[string]int32
	Iota  []string
	Kappa int16
}
type F213 struct {
	Alpha int32
	Beta  string
	Gamma int64
	Delta bool
	Eps   float64
	Zeta  []int32
	Eta   *Small
	Theta map[string]int32
	Iota  []string
	Kappa int16
}
type F214 struct {
	Alpha int32
	Beta  string
	Gamma int64
	Delta bool
	Eps   float64
	Zeta  []int32
	Eta   *Small
	Theta map[string]int32
	Iota  []string
	Kappa int16
}
type F215 struct {
	Alpha int32
	Beta  string
	Gamma int64
	Delta bool
	Eps   float64
	Zeta  []int32
	Eta   *Small
	Theta map[string]int32
	Iota  []string
	Kappa int16
}
type F216 struct {
	Alpha int32
	Beta  string
	Gamma int64
	Delta bool
	Eps   float64
	Zeta  []int32
	Eta   *Small
	Theta map[string]int32
	Iota  []string
	Kappa int16
}
type F217 struct {
	Alpha int32
	Beta  string
	Gamma int64
	Delta bool
	Eps   float64
	Zeta  []int32
	Eta   *Small
	Theta map[string]int32
	Iota  []string
	Kappa int16
}
type F218 struct {
	Alpha int32
	Beta  string
	Gamma int64
	Delta bool
	Eps   float64
	Zeta  []int32
	Eta   *Small
	Theta map[string]int32
	Iota  []string
	Kappa int16
}
type F219 struct {
	Alpha int32
	Beta  string
	Gamma int64
	Delta bool
	Eps   float64
	Zeta  []int32
	Eta   *Small
	Theta map[string]int32
	Iota  []string
	Kappa int16
}
type F220 struct {
	Alpha int32
	Beta  string
	Gamma int64
	Delta bool
	Eps   float64
	Zeta  []int32
	Eta   *Small
	Theta map[string]int32
	Iota  []string
	Kappa int16
}
type F221 struct {
	Alpha int32
	Beta  string
	Gamma int64
	Delta bool
	Eps   float64
	Zeta  []int32
	Eta   *Small
	Theta map[string]int32
	Iota  []string
	Kappa int16
}
type F222 struct {
	Alpha int32
	Beta  string
	Gamma int64
	Delta bool
	Eps   float64
	Zeta  []int32
	Eta   *Small
	Theta map[string]int32
	Iota  []string
	Kappa int16
}
type F223 struct {
	Alpha int32
	Beta  string
	Gamma int64
	Delta bool
	Eps   float64
	Zeta  []int32
	Eta   *Small
	Theta map[string]int32
	Iota  []string
	Kappa int16
}
type F224 struct {
	Alpha int32
	Beta  string
	Gamma int64
	Delta bool
	Eps   float64
	Zeta  []int32
	Eta   *Small
	Theta map[string]int32
	Iota  []string
	Kappa int16
}
type F225 struct {
	Alpha int32
	Beta  string
	Gamma int64
	Delta bool
	Eps   float64
	Zeta  []int32
	Eta   *Small
	Theta map[string]int32
	Iota  []string
	Kappa int16
}
type F226 struct {
	Alpha int32
	Beta  string
	Gamma int64
	Delta bool
	Eps   float64
	Zeta  []int32
	Eta   *Small
	Theta map[string]int32
	Iota  []string
	Kappa int16
}
type F227 struct {
	Alpha int32
	Beta  string
	Gamma int64
	Delta bool
	Eps   float64
	Zeta  []int32
	Eta   *Small
	Theta map[string]int32
	Iota  []string
	Kappa int16
}
type F228 struct {
	Alpha int32
	Beta  string
	Gamma int64
	Delta bool
	Eps   float64
	Zeta  []int32
	Eta   *Small
	Theta map[string]int32
	Iota  []string
	Kappa int16
}
type F229 struct {
	Alpha int32
	Beta  string
	Gamma int64
	Delta bool
	Eps   float64
	Zeta  []int32
	Eta   *Small
	Theta map[string]int32
	Iota  []string
	Kappa int16
}
type F230 struct {
	Alpha int32
	Beta  string
	Gamma int64
	Delta bool
	Eps   float64
	Zeta  []int32
	Eta   *Small
	Theta map[string]int32
	Iota  []string
	Kappa int16
}
type F231 struct {
	Alpha int32
	Beta  string
	Gamma int64
	Delta bool
	Eps   float64
	Zeta  []int32
	Eta   *Small
	Theta map[string]int32
	Iota  []string
	Kappa int16
}
type F232 struct {
	Alpha int32
	Beta  string
	Gamma int64
	Delta bool
	Eps   float64
	Zeta  []int32
	Eta   *Small
	Theta map[string]int32
	Iota  []string
	Kappa int16
}
type F233 struct {
	Alpha int32
	Beta  string
	Gamma int64
	Delta bool
	Eps   float64
	Zeta  []int32
	Eta   *Small
	Theta map[string]int32
	Iota  []string
	Kappa int16
}
type F234 struct {
	Alpha int32
	Beta  string
	Gamma int64
	Delta bool
	Eps   float64
	Zeta  []int32
	Eta   *Small
	Theta map[string]int32
	Iota  []string
	Kappa int16
}
type F235 struct {
	Alpha int32
	Beta  string
	Gamma int64
	Delta bool
	Eps   float64
	Zeta  []int32
	Eta   *Small
	Theta map[string]int32
	Iota  []string
	Kappa int16
}
type F236 struct {
	Alpha int32
	Beta  string
	Gamma int64
	Delta bool
	Eps   float64
	Zeta  []int32
	Eta   *Small
	Theta map[string]int32
	Iota  []string
	Kappa int16
}
type F237 struct {
	Alpha int32
	Beta  string
	Gamma int64
	Delta bool
	Eps   float64
	Zeta  []int32
	Eta   *Small
	Theta map[string]int32
	Iota  []string
	Kappa int16
}
type F238 struct {
	Alpha int32
	Beta  string
	Gamma int64
	Delta bool
	Eps   float64
	Zeta  []int32
	Eta   *Small
	Theta map[string]int32
	Iota  []string
	Kappa int16
}
type F239 struct {
	Alpha int32
	Beta  string
	Gamma int64
	Delta bool
	Eps   float64
	Zeta  []int32
	Eta   *Small
	Theta map[string]int32
	Iota  []string
	Kappa int16
}
type F240 struct {
	Alpha int32
	Beta  string
	Gamma int64
	Delta bool
	Eps   float64
	Zeta  []int32
	Eta   *Small
	Theta map[string]int32
	Iota  []string
	Kappa int16
}
type F241 struct {
	Alpha int32
	Beta  string
	Gamma int64
	Delta bool
	Eps   float64
	Zeta  []int32
	Eta   *Small
	Theta map[string]int32
	Iota  []string
	Kappa int16
}
type F242 struct {
	Alpha int32
	Beta  string
	Gamma int64
	Delta bool
	Eps   float64
	Zeta  []int32
	Eta   *Small
	Theta map[string]int32
	Iota  []string
	Kappa int16
}
type F243 struct {
	Alpha int32
	Beta  string
	Gamma int64
	Delta bool
	Eps   float64
	Zeta  []int32
	Eta   *Small
	Theta map[string]int32
	Iota  []string
	Kappa int16
}
type F244 struct {
	Alpha int32
	Beta  string
	Gamma int64
	Delta bool
	Eps   float64
	Zeta  []int32
	Eta   *Small
	Theta map[string]int32
	Iota  []string
	Kappa int16
}
type F245 struct {
	Alpha int32
	Beta  string
	Gamma int64
	Delta bool
	Eps   float64
	Zeta  []int32
	Eta   *Small
	Theta map[string]int32
	Iota  []string
	Kappa int16
}
type F246 struct {
	Alpha int32
	Beta  string
	Gamma int64
	Delta bool
	Eps   float64
	Zeta  []int32
	Eta   *Small
	Theta map[string]int32
	Iota  []string
	Kappa int16
}
type F247 struct {
	Alpha int32
	Beta  string
	Gamma int64
	Delta bool
	Eps   float64
	Zeta  []int32
	Eta   *Small
	Theta map[string]int32
	Iota  []string
	Kappa int16
}
type F248 struct {
	Alpha int32
	Beta  string
	Gamma int64
	Delta bool
	Eps   float64
	Zeta  []int32
	Eta   *Small
	Theta map[string]int32
	Iota  []string
	Kappa int16
}
type F249 struct {
	Alpha int32
	Beta  string
	Gamma int64
	Delta bool
	Eps   float64
	Zeta  []int32
	Eta   *Small
	Theta map[string]int32
	Iota  []string
	Kappa int16
}
type F250 struct {
	Alpha int32
	Beta  string
	Gamma int64
	Delta bool
	Eps   float64
	Zeta  []int32
	Eta   *Small
	Theta map[string]int32
	Iota  []string
	Kappa int16
}
type F251 struct {
	Alpha int32
	Beta  string
	Gamma int64
	Delta bool
	Eps   float64
	Zeta  []int32
	Eta   *Small
	Theta map[string]int32
	Iota  []string
	Kappa int16
}
type F252 struct {
	Alpha int32
	Beta  string
	Gamma int64
	Delta bool
	Eps   float64
	Zeta  []int32
	Eta   *Small
	Theta map[string]int32
	Iota  []string
	Kappa int16
}
type F253 struct {
	Alpha int32
	Beta  string
	Gamma int64
	Delta bool
	Eps   float64
	Zeta  []int32
	Eta   *Small
	Theta map[string]int32
	Iota  []string
	Kappa int16
}
type F254 struct {
	Alpha int32
	Beta  string
	Gamma int64
	Delta bool
	Eps   float64
	Zeta  []int32
	Eta   *Small
	Theta map[string]int32
	Iota  []string
	Kappa int16
}
type F255 struct {
	Alpha int32
	Beta  string
	Gamma int64
	Delta bool
	Eps   float64
	Zeta  []int32
	Eta   *Small
	Theta map[string]int32
	Iota  []string
	Kappa int16
}
type F256 struct {
	Alpha int32
	Beta  string
	Gamma int64
	Delta bool
	Eps   float64
	Zeta  []int32
	Eta   *Small
	Theta map[string]int32
	Iota  []string
	Kappa int16
}
type F257 struct {
	Alpha int32
	Beta  string
	Gamma int64
	Delta bool
	Eps   float64
	Zeta  []int32
	Eta   *Small
	Theta map[string]int32
	Iota  []string
	Kappa int16
}
type F258 struct {
	Alpha int32
	Beta  string
	Gamma int64
	Delta bool
	Eps   float64
	Zeta  []int32
	Eta   *Small
	Theta map[string]int32
	Iota  []string
	Kappa int16
}
type F259 struct {
	Alpha int32
	Beta  string
	Gamma int64
	Delta bool
	Eps   float64
	Zeta  []int32
	Eta   *Small
	Theta map[string]int32
	Iota  []string
	Kappa int16
}
type F260 struct {
	Alpha int32
	Beta  string
	Gamma int64
	Delta bool
	Eps   float64
	Zeta  []int32
	Eta   *Small
	Theta map[string]int32
	Iota  []string
	Kappa int16
}
type F261 struct {
	Alpha int32
	Beta  string
	Gamma int64
	Delta bool
	Eps   float64
	Zeta  []int32
	Eta   *Small
	Theta map[string]int32
	Iota  []string
	Kappa int16
}
type F262 struct {
	Alpha int32
	Beta  string
	Gamma int64
	Delta bool
	Eps   float64
	Zeta  []int32
	Eta   *Small
	Theta map[string]int32
	Iota  []string
	Kappa int16
}
type F263 struct {
	Alpha int32
	Beta  string
	Gamma int64
	Delta bool
	Eps   float64
	Zeta  []int32
	Eta   *Small
	Theta map[string]int32
	Iota  []string
	Kappa int16
}
type F264 struct {
	Alpha int32
	Beta  string
	Gamma int64
	Delta bool
	Eps   float64
	Zeta  []int32
	Eta   *Small
	Theta map[string]int32
	Iota  []string
	Kappa int16
}
type F265 struct {
	Alpha int32
	Beta  string
	Gamma int64
	Delta bool
	Eps   float64
	Zeta  []int32
	Eta   *Small
	Theta map[string]int32
	Iota  []string
	Kappa int16
}
type F266 struct {
	Alpha int32
	Beta  string
	Gamma int64
	Delta bool
	Eps   float64
	Zeta  []int32
	Eta   *Small
	Theta map[string]int32
	Iota  []string
	Kappa int16
}
type F267 struct {
	Alpha int32
	Beta  string
	Gamma int64
	Delta bool
	Eps   float64
	Zeta  []int32
	Eta   *Small
	Theta map[string]int32
	Iota  []string
	Kappa int16
}
type F268 struct {
	Alpha int32
	Beta  string
	Gamma int64
	Delta bool
	Eps   float64
	Zeta  []int32
	Eta   *Small
	Theta map[string]int32
	Iota  []string
	Kappa int16
}
type F269 struct {
	Alpha int32
	Beta  string
	Gamma int64
	Delta bool
	Eps   float64
	Zeta  []int32
	Eta   *Small
	Theta map[string]int32
	Iota  []string
	Kappa int16
}
type F270 struct {
	Alpha int32
	Beta  string
	Gamma int64
	Delta bool
	Eps   float64
	Zeta  []int32
	Eta   *Small
	Theta map[string]int32
	Iota  []string
	Kappa int16
}
type F271 struct {
	Alpha int32
	Beta  string
	Gamma int64
	Delta bool
	Eps   float64
	Zeta  []int32
	Eta   *Small
	Theta map[string]int32
	Iota  []string
	Kappa int16
}
type F272 struct {
	Alpha int32
	Beta  string
	Gamma int64
	Delta bool
	Eps   float64
	Zeta  []int32
	Eta   *Small
	Theta map[string]int32
	Iota  []string
	Kappa int16
}
type F273 struct {
	Alpha int32
	Beta  string
	Gamma int64
	Delta bool
	Eps   float64
	Zeta  []int32
	Eta   *Small
	Theta map[string]int32
	Iota  []string
	Kappa int16
}
type F274 struct {
	Alpha int32
	Beta  string
	Gamma int64
	Delta bool
	Eps   float64
	Zeta  []int32
	Eta   *Small
	Theta map[string]int32
	Iota  []string
	Kappa int16
}
type F275 struct {
	Alpha int32
	Beta  string
	Gamma int64
	Delta bool
	Eps   float64
	Zeta  []int32
	Eta   *Small
	Theta map[string]int32
	Iota  []string
	Kappa int16
}
type F276 struct {
	Alpha int32
	Beta  string
	Gamma int64
	Delta bool
	Eps   float64
	Zeta  []int32
	Eta   *Small
	Theta map[string]int32
	Iota  []string
	Kappa int16
}
type F277 struct {
	Alpha int32
	Beta  string
	Gamma int64
	Delta bool
	Eps   float64
	Zeta  []int32
	Eta   *Small
	Theta map[string]int32
	Iota  []string
	Kappa int16
}
type F278 struct {
	Alpha int32
	Beta  string
	Gamma int64
	Delta bool
	Eps   float64
	Zeta  []int32
	Eta   *Small
	Theta map[string]int32
	Iota  []string
	Kappa int16
}
type F279 struct {
	Alpha int32
	Beta  string
	Gamma int64
	Delta bool
	Eps   float64
	Zeta  []int32
	Eta   *Small
	Theta map[string]int32
	Iota  []string
	Kappa int16
}
type F280 struct {
	Alpha int32
	Beta  string
	Gamma int64
	Delta bool
	Eps   float64
	Zeta  []int32
	Eta   *Small
	Theta map[string]int32
	Iota  []string
	Kappa int16
}
type F281 struct {
	Alpha int32
	Beta  string
	Gamma int64
	Delta bool
	Eps   float64
	Zeta  []int32
	Eta   *Small
	Theta map[string]int32
	Iota  []string
	Kappa int16
}
type F282 struct {
	Alpha int32
	Beta  string
	Gamma int64
	Delta bool
	Eps   float64
	Zeta  []int32
	Eta   *Small
	Theta map[string]int32
	Iota  []string
	Kappa int16
}
type F283 struct {
	Alpha int32
	Beta  string
	Gamma int64
	Delta bool
	Eps   float64
	Zeta  []int32
	Eta   *Small
	Theta map[string]int32
	Iota  []string
	Kappa int16
}
type F284 struct {
	Alpha int32
	Beta  string
	Gamma int64
	Delta bool
	Eps   float64
	Zeta  []int32
	Eta   *Small
	Theta map[string]int32
	Iota  []string
	Kappa int16
}
type F285 struct {
	Alpha int32
	Beta  string
	Gamma int64
	Delta bool
	Eps   float64
	Zeta  []int32
	Eta   *Small
	Theta map[string]int32
	Iota  []string
	Kappa int16
}
type F286 struct {
	Alpha int32
	Beta  string
	Gamma int64
	Delta bool
	Eps   float64
	Zeta  []int32
	Eta   *Small
	Theta map[string]int32
	Iota  []string
	Kappa int16
}
type F287 struct {
	Alpha int32
	Beta  string
	Gamma int64
	Delta bool
	Eps   float64
	Zeta  []int32
	Eta   *Small
	Theta map[string]int32
	Iota  []string
	Kappa int16
}
type F288 struct {
	Alpha int32
	Beta  string
	Gamma int64
	Delta bool
	Eps   float64
	Zeta  []int32
	Eta   *Small
	Theta map[string]int32
	Iota  []string
	Kappa int16
}
type F289 struct {
	Alpha int32
	Beta  string
	Gamma int64
	Delta bool
	Eps   float64
	Zeta  []int32
	Eta   *Small
	Theta map[string]int32
	Iota  []string
	Kappa int16
}
type F290 struct {
	Alpha int32
	Beta  string
	Gamma int64
	Delta bool
	Eps   float64
	Zeta  []int32
	Eta   *Small
	Theta map[string]int32
	Iota  []string
	Kappa int16
}
type F291 struct {
	Alpha int32
	Beta  string
	Gamma int64
	Delta bool
	Eps   float64
	Zeta  []int32
	Eta   *Small
	Theta map[string]int32
	Iota  []string
	Kappa int16
}
type F292 struct {
	Alpha int32
	Beta  string
	Gamma int64
	Delta bool
	Eps   float64
	Zeta  []int32
	Eta   *Small
	Theta map[string]int32
	Iota  []string
	Kappa int16
}
type F293 struct {
	Alpha int32
	Beta  string
	Gamma int64
	Delta bool
	Eps   float64
	Zeta  []int32
	Eta   *Small
	Theta map[string]int32
	Iota  []string
	Kappa int16
}
type F294 struct {
	Alpha int32
	Beta  string
	Gamma int64
	Delta bool
	Eps   float64
	Zeta  []int32
	Eta   *Small
	Theta map[string]int32
	Iota  []string
	Kappa int16
}
type F295 struct {
	Alpha int32
	Beta  string
	Gamma int64
	Delta bool
	Eps   float64
	Zeta  []int32
	Eta   *Small
	Theta map[string]int32
	Iota  []string
	Kappa int16
}
type F296 struct {
	Alpha int32
	Beta  string
	Gamma int64
	Delta bool
	Eps   float64
	Zeta  []int32
	Eta   *Small
	Theta map[string]int32
	Iota  []string
	Kappa int16
}
type F297 struct {
	Alpha int32
	Beta  string
	Gamma int64
	Delta bool
	Eps   float64
	Zeta  []int32
	Eta   *Small
	Theta map[string]int32
	Iota  []string
	Kappa int16
}
type F298 struct {
	Alpha int32
	Beta  string
	Gamma int64
	Delta bool
	Eps   float64
	Zeta  []int32
	Eta   *Small
	Theta map[string]int32
	Iota  []string
	Kappa int16
}
type F299 struct {
	Alpha int32
	Beta  string
	Gamma int64
	Delta bool
	Eps   float64
	Zeta  []int32
	Eta   *Small
	Theta map[string]int32
	Iota  []string
	Kappa int16
}
type F300 struct {
	Alpha int32
	Beta  string
	Gamma int64
	Delta bool
	Eps   float64
	Zeta  []int32
	Eta   *Small
	Theta map[string]int32
	Iota  []string
	Kappa int16
}
type F301 struct {
	Alpha int32
	Beta  string
	Gamma int64
	Delta bool
	Eps   float64
	Zeta  []int32
	Eta   *Small
	Theta map[string]int32
	Iota  []string
	Kappa int16
}
type F302 struct {
	Alpha int32
	Beta  string
	Gamma int64
	Delta bool
	Eps   float64
	Zeta  []int32
	Eta   *Small
	Theta map[string]int32
	Iota  []string
	Kappa int16
}
type F303 struct {
	Alpha int32
	Beta  string
	Gamma int64
	Delta bool
	Eps   float64
	Zeta  []int32
	Eta   *Small
	Theta map[string]int32
	Iota  []string
	Kappa int16
}
type F304 struct {
	Alpha int32
	Beta  string
	Gamma int64
	Delta bool
	Eps   float64
	Zeta  []int32
	Eta   *Small
	Theta map[string]int32
	Iota  []string
	Kappa int16
}
type F305 struct {
	Alpha int32
	Beta  string
	Gamma int64
	Delta bool
	Eps   float64
	Zeta  []int32
	Eta   *Small
	Theta map[string]int32
	Iota  []string
	Kappa int16
}
type F306 struct {
	Alpha int32
	Beta  string
	Gamma int64
	Delta bool
	Eps   float64
	Zeta  []int32
	Eta   *Small
	Theta map[string]int32
	Iota  []string
	Kappa int16
}
type F307 struct {
	Alpha int32
	Beta  string
	Gamma int64
	Delta bool
	Eps   float64
	Zeta  []int32
	Eta   *Small
	Theta map[string]int32
	Iota  []string
	Kappa int16
}
type F308 struct {
	Alpha int32
	Beta  string
	Gamma int64
	Delta bool
	Eps   float64
	Zeta  []int32
	Eta   *Small
	Theta map[string]int32
	Iota  []string
	Kappa int16
}
type F309 struct {
	Alpha int32
	Beta  string
	Gamma int64
	Delta bool
	Eps   float64
	Zeta  []int32
	Eta   *Small
	Theta map[string]int32
	Iota  []string
	Kappa int16
}
type F310 struct {
	Alpha int32
	Beta  string
	Gamma int64
	Delta bool
	Eps   float64
	Zeta  []int32
	Eta   *Small
	Theta map[string]int32
	Iota  []string
	Kappa int16
}
type F311 struct {
	Alpha int32
	Beta  string
	Gamma int64
	Delta bool
	Eps   float64
	Zeta  []int32
	Eta   *Small
	Theta map[string]int32
	Iota  []string
	Kappa int16
}
type F312 struct {
	Alpha int32
	Beta  string
	Gamma int64
	Delta bool
	Eps   float64
	Zeta  []int32
	Eta   *Small
	Theta map[string]int32
	Iota  []string
	Kappa int16
}
type F313 struct {
	Alpha int32
	Beta  string
	Gamma int64
	Delta bool
	Eps   float64
	Zeta  []int32
	Eta   *Small
	Theta map[string]int32
	Iota  []string
	Kappa int16
}
type F314 struct {
	Alpha int32
	Beta  string
	Gamma int64
	Delta bool
	Eps   float64
	Zeta  []int32
	Eta   *Small
	Theta map[string]int32
	Iota  []string
	Kappa int16
}
type F315 struct {
	Alpha int32
	Beta  string
	Gamma int64
	Delta bool
	Eps   float64
	Zeta  []int32
	Eta   *Small
	Theta map[string]int32
	Iota  []string
	Kappa int16
}
type F316 struct {
	Alpha int32
	Beta  string
	Gamma int64
	Delta bool
	Eps   float64
	Zeta  []int32
	Eta   *Small
	Theta map[string]int32
	Iota  []string
	Kappa int16
}
type F317 struct {
	Alpha int32
	Beta  string
	Gamma int64
	Delta bool
	Eps   float64
	Zeta  []int32
	Eta   *Small
	Theta map[string]int32
	Iota  []string
	Kappa int16
}
type F318 struct {
	Alpha int32
	Beta  string
	Gamma int64
	Delta bool
	Eps   float64
	Zeta  []int32
	Eta   *Small
	Theta map[string]int32
	Iota  []string
	Kappa int16
}
type F319 struct {
	Alpha int32
	Beta  string
	Gamma int64
	Delta bool
	Eps   float64
	Zeta  []int32
	Eta   *Small
	Theta map[string]int32
	Iota  []string
	Kappa int16
}
type F320 struct {
	Alpha int32
	Beta  string
	Gamma int64
	Delta bool
	Eps   float64
	Zeta  []int32
	Eta   *Small
	Theta map[string]int32
	Iota  []string
	Kappa int16
}
type F321 struct {
	Alpha int32
	Beta  string
	Gamma int64
	Delta bool
	Eps   float64
	Zeta  []int32
	Eta   *Small
	Theta map[string]int32
	Iota  []string
	Kappa int16
}
type F322 struct {
	Alpha int32
	Beta  string
	Gamma int64
	Delta bool
	Eps   float64
	Zeta  []int32
	Eta   *Small
	Theta map[string]int32
	Iota  []string
	Kappa int16
}
type F323 struct {
	Alpha int32
	Beta  string
	Gamma int64
	Delta bool
	Eps   float64
	Zeta  []int32
	Eta   *Small
	Theta map[string]int32
	Iota  []string
	Kappa int16
}
type F324 struct {
	Alpha int32
	Beta  string
	Gamma int64
	Delta bool
	Eps   float64
	Zeta  []int32
	Eta   *Small
	Theta map[string]int32
	Iota  []string
	Kappa int16
}
type F325 struct {
	Alpha int32
	Beta  string
	Gamma int64
	Delta bool
	Eps   float64
	Zeta  []int32
	Eta   *Small
	Theta map[string]int32
	Iota  []string
	Kappa int16
}
type F326 struct {
	Alpha int32
	Beta  string
	Gamma int64
	Delta bool
	Eps   float64
	Zeta  []int32
	Eta   *Small
	Theta map[string]int32
	Iota  []string
	Kappa int16
}
type F327 struct {
	Alpha int32
	Beta  string
	Gamma int64
	Delta bool
	Eps   float64
	Zeta  []int32
	Eta   *Small
	Theta map[string]int32
	Iota  []string
	Kappa int16
}
type F328 struct {
	Alpha int32
	Beta  string
	Gamma int64
	Delta bool
	Eps   float64
	Zeta  []int32
	Eta   *Small
	Theta map[string]int32
	Iota  []string
	Kappa int16
}
type F329 struct {
	Alpha int32
	Beta  string
	Gamma int64
	Delta bool
	Eps   float64
	Zeta  []int32
	Eta   *Small
	Theta map[string]int32
	Iota  []string
	Kappa int16
}
type F330 struct {
	Alpha int32
	Beta  string
	Gamma int64
	Delta bool
	Eps   float64
	Zeta  []int32
	Eta   *Small
	Theta map[string]int32
	Iota  []string
	Kappa int16
}
type F331 struct {
	Alpha int32
	Beta  string
	Gamma int64
	Delta bool
	Eps   float64
	Zeta  []int32
	Eta   *Small
	Theta map[string]int32
	Iota  []string
	Kappa int16
}
type F332 struct {
	Alpha int32
	Beta  string
	Gamma int64
	Delta bool
	Eps   float64
	Zeta  []int32
	Eta   *Small
	Theta map[string]int32
	Iota  []string
	Kappa int16
}
type F333 struct {
	Alpha int32
	Beta  string
	Gamma int64
	Delta bool
	Eps   float64
	Zeta  []int32
	Eta   *Small
	Theta map[string]int32
	Iota  []string
	Kappa int16
}
type F334 struct {
	Alpha int32
	Beta  string
	Gamma int64
	Delta bool
	Eps   float64
	Zeta  []int32
	Eta   *Small
	Theta map[string]int32
	Iota  []string
	Kappa int16
}
type F335 struct {
	Alpha int32
	Beta  string
	Gamma int64
	Delta bool
	Eps   float64
	Zeta  []int32
	Eta   *Small
	Theta map[string]int32
	Iota  []string
	Kappa int16
}
type F336 struct {
	Alpha int32
	Beta  string
	Gamma int64
	Delta bool
	Eps   float64
	Zeta  []int32
	Eta   *Small
	Theta map[string]int32
	Iota  []string
	Kappa int16
}
type F337 struct {
	Alpha int32
	Beta  string
	Gamma int64
	Delta bool
	Eps   float64
	Zeta  []int32
	Eta   *Small
	Theta map[string]int32
	Iota  []string
	Kappa int16
}
type F338 struct {
	Alpha int32
	Beta  string
	Gamma int64
	Delta bool
	Eps   float64
	Zeta  []int32
	Eta   *Small
	Theta map[string]int32
	Iota  []string
	Kappa int16
}
type F339 struct {
	Alpha int32
	Beta  string
	Gamma int64
	Delta bool
	Eps   float64
	Zeta  []int32
	Eta   *Small
	Theta map[string]int32
	Iota  []string
	Kappa int16
}
type F340 struct {
	Alpha int32
	Beta  string
	Gamma int64
	Delta bool
	Eps   float64
	Zeta  []int32
	Eta   *Small
	Theta map[string]int32
	Iota  []string
	Kappa int16
}
type F341 struct {
	Alpha int32
	Beta  string
	Gamma int64
	Delta bool
	Eps   float64
	Zeta  []int32
	Eta   *Small
	Theta map[string]int32
	Iota  []string
	Kappa int16
}
type F342 struct {
	Alpha int32
	Beta  string
	Gamma int64
	Delta bool
	Eps   float64
	Zeta  []int32
	Eta   *Small
	Theta map[string]int32
	Iota  []string
	Kappa int16
}
type F343 struct {
	Alpha int32
	Beta  string
	Gamma int64
	Delta bool
	Eps   float64
	Zeta  []int32
	Eta   *Small
	Theta map[string]int32
	Iota  []string
	Kappa int16
}
type F344 struct {
	Alpha int32
	Beta  string
	Gamma int64
	Delta bool
	Eps   float64
	Zeta  []int32
	Eta   *Small
	Theta map[string]int32
	Iota  []string
	Kappa int16
}
type F345 struct {
	Alpha int32
	Beta  string
	Gamma int64
	Delta bool
	Eps   float64
	Zeta  []int32
	Eta   *Small
	Theta map[string]int32
	Iota  []string
	Kappa int16
}
type F346 struct {
	Alpha int32
	Beta  string
	Gamma int64
	Delta bool
	Eps   float64
	Zeta  []int32
	Eta   *Small
	Theta map[string]int32
	Iota  []string
	Kappa int16
}
type F347 struct {
	Alpha int32
	Beta  string
	Gamma int64
	Delta bool
	Eps   float64
	Zeta  []int32
	Eta   *Small
	Theta map[string]int32
	Iota  []string
	Kappa int16
}
type F348 struct {
	Alpha int32
	Beta  string
	Gamma int64
	Delta bool
	Eps   float64
	Zeta  []int32
	Eta   *Small
	Theta map[string]int32
	Iota  []string
	Kappa int16
}
type F349 struct {
	Alpha int32
	Beta  string
	Gamma int64
	Delta bool
	Eps   float64
	Zeta  []int32
	Eta   *Small
	Theta map[string]int32
	Iota  []string
	Kappa int16
}
type F350 struct {
	Alpha int32
	Beta  string
	Gamma int64
	Delta bool
	Eps   float64
	Zeta  []int32
	Eta   *Small
	Theta map[string]int32
	Iota  []string
	Kappa int16
}
type F351 struct {
	Alpha int32
	Beta  string
	Gamma int64
	Delta bool
	Eps   float64
	Zeta  []int32
	Eta   *Small
	Theta map[string]int32
	Iota  []string
	Kappa int16
}
type F352 struct {
	Alpha int32
	Beta  string
	Gamma int64
	Delta bool
	Eps   float64
	Zeta  []int32
	Eta   *Small
	Theta map[string]int32
	Iota  []string
	Kappa int16
}
type F353 struct {
	Alpha int32
	Beta  string
	Gamma int64
	Delta bool
	Eps   float64
	Zeta  []int32
	Eta   *Small
	Theta map[string]int32
	Iota  []string
	Kappa int16
}
type F354 struct {
	Alpha int32
	Beta  string
	Gamma int64
	Delta bool
	Eps   float64
	Zeta  []int32
	Eta   *Small
	Theta map[string]int32
	Iota  []string
	Kappa int16
}
type F355 struct {
	Alpha int32
	Beta  string
	Gamma int64
	Delta bool
	Eps   float64
	Zeta  []int32
	Eta   *Small
	Theta map[string]int32
	Iota  []string
	Kappa int16
}
type F356 struct {
	Alpha int32
	Beta  string
	Gamma int64
	Delta bool
	Eps   float64
	Zeta  []int32
	Eta   *Small
	Theta map[string]int32
	Iota  []string
	Kappa int16
}
type F357 struct {
	Alpha int32
	Beta  string
	Gamma int64
	Delta bool
	Eps   float64
	Zeta  []int32
	Eta   *Small
	Theta map[string]int32
	Iota  []string
	Kappa int16
}
type F358 struct {
	Alpha int32
	Beta  string
	Gamma int64
	Delta bool
	Eps   float64
	Zeta  []int32
	Eta   *Small
	Theta map[string]int32
	Iota  []string
	Kappa int16
}
type F359 struct {
	Alpha int32
	Beta  string
	Gamma int64
	Delta bool
	Eps   float64
	Zeta  []int32
	Eta   *Small
	Theta map[string]int32
	Iota  []string
	Kappa int16
}
type F360 struct {
	Alpha int32
	Beta  string
	Gamma int64
	Delta bool
	Eps   float64
	Zeta  []int32
	Eta   *Small
	Theta map[string]int32
	Iota  []string
	Kappa int16
}
type F361 struct {
	Alpha int32
	Beta  string
	Gamma int64
	Delta bool
	Eps   float64
	Zeta  []int32
	Eta   *Small
	Theta map[string]int32
	Iota  []string
	Kappa int16
}
type F362 struct {
	Alpha int32
	Beta  string
	Gamma int64
	Delta bool
	Eps   float64
	Zeta  []int32
	Eta   *Small
	Theta map[string]int32
	Iota  []string
	Kappa int16
}
type F363 struct {
	Alpha int32
	Beta  string
	Gamma int64
	Delta bool
	Eps   float64
	Zeta  []int32
	Eta   *Small
	Theta map[string]int32
	Iota  []string
	Kappa int16
}
type F364 struct {
	Alpha int32
	Beta  string
	Gamma int64
	Delta bool
	Eps   float64
	Zeta  []int32
	Eta   *Small
	Theta map[string]int32
	Iota  []string
	Kappa int16
}
type F365 struct {
	Alpha int32
	Beta  string
	Gamma int64
	Delta bool
	Eps   float64
	Zeta  []int32
	Eta   *Small
	Theta map[string]int32
	Iota  []string
	Kappa int16
}
type F366 struct {
	Alpha int32
	Beta  string
	Gamma int64
	Delta bool
	Eps   float64
	Zeta  []int32
	Eta   *Small
	Theta map[string]int32
	Iota  []string
	Kappa int16
}
type F367 struct {
	Alpha int32
	Beta  string
	Gamma int64
	Delta bool
	Eps   float64
	Zeta  []int32
	Eta   *Small
	Theta map[string]int32
	Iota  []string
	Kappa int16
}
type F368 struct {
	Alpha int32
	Beta  string
	Gamma int64
	Delta bool
	Eps   float64
	Zeta  []int32
	Eta   *Small
	Theta map[string]int32
	Iota  []string
	Kappa int16
}
type F369 struct {
	Alpha int32
	Beta  string
	Gamma int64
	Delta bool
	Eps   float64
	Zeta  []int32
	Eta   *Small
	Theta map[string]int32
	Iota  []string
	Kappa int16
}
type F370 struct {
	Alpha int32
	Beta  string
	Gamma int64
	Delta bool
	Eps   float64
	Zeta  []int32
	Eta   *Small
	Theta map[string]int32
	Iota  []string
	Kappa int16
}
type F371 struct {
	Alpha int32
	Beta  string
	Gamma int64
	Delta bool
	Eps   float64
	Zeta  []int32
	Eta   *Small
	Theta map[string]int32
	Iota  []string
	Kappa int16
}
type F372 struct {
	Alpha int32
	Beta  string
	Gamma int64
	Delta bool
	Eps   float64
	Zeta  []int32
	Eta   *Small
	Theta map[string]int32
	Iota  []string
	Kappa int16
}
type F373 struct {
	Alpha int32
	Beta  string
	Gamma int64
	Delta bool
	Eps   float64
	Zeta  []int32
	Eta   *Small
	Theta map[string]int32
	Iota  []string
	Kappa int16
}
type F374 struct {
	Alpha int32
	Beta  string
	Gamma int64
	Delta bool
	Eps   float64
	Zeta  []int32
	Eta   *Small
	Theta map[string]int32
	Iota  []string
	Kappa int16
}
type F375 struct {
	Alpha int32
	Beta  string
	Gamma int64
	Delta bool
	Eps   float64
	Zeta  []int32
	Eta   *Small
	Theta map[string]int32
	Iota  []string
	Kappa int16
}
type F376 struct {
	Alpha int32
	Beta  string
	Gamma int64
	Delta bool
	Eps   float64
	Zeta  []int32
	Eta   *Small
	Theta map[string]int32
	Iota  []string
	Kappa int16
}
type F377 struct {
	Alpha int32
	Beta  string
	Gamma int64
	Delta bool
	Eps   float64
	Zeta  []int32
	Eta   *Small
	Theta map[string]int32
	Iota  []string
	Kappa int16
}
type F378 struct {
	Alpha int32
	Beta  string
	Gamma int64
	Delta bool
	Eps   float64
	Zeta  []int32
	Eta   *Small
	Theta map[string]int32
	Iota  []string
	Kappa int16
}
type F379 struct {
	Alpha int32
	Beta  string
	Gamma int64
	Delta bool
	Eps   float64
	Zeta  []int32
	Eta   *Small
	Theta map[string]int32
	Iota  []string
	Kappa int16
}
type F380 struct {
	Alpha int32
	Beta  string
	Gamma int64
	Delta bool
	Eps   float64
	Zeta  []int32
	Eta   *Small
	Theta map[string]int32
	Iota  []string
	Kappa int16
}
type F381 struct {
	Alpha int32
	Beta  string
	Gamma int64
	Delta bool
	Eps   float64
	Zeta  []int32
	Eta   *Small
	Theta map[string]int32
	Iota  []string
	Kappa int16
}
type F382 struct {
	Alpha int32
	Beta  string
	Gamma int64
	Delta bool
	Eps   float64
	Zeta  []int32
	Eta   *Small
	Theta map[string]int32
	Iota  []string
	Kappa int16
}
type F383 struct {
	Alpha int32
	Beta  string
	Gamma int64
	Delta bool
	Eps   float64
	Zeta  []int32
	Eta   *Small
	Theta map[string]int32
	Iota  []string
	Kappa int16
}
type F384 struct {
	Alpha int32
	Beta  string
	Gamma int64
	Delta bool
	Eps   float64
	Zeta  []int32
	Eta   *Small
	Theta map[string]int32
	Iota  []string
	Kappa int16
}
type F385 struct {
	Alpha int32
	Beta  string
	Gamma int64
	Delta bool
	Eps   float64
	Zeta  []int32
	Eta   *Small
	Theta map[string]int32
	Iota  []string
	Kappa int16
}
type F386 struct {
	Alpha int32
	Beta  string
	Gamma int64
	Delta bool
	Eps   float64
	Zeta  []int32
	Eta   *Small
	Theta map[string]int32
	Iota  []string
	Kappa int16
}
type F387 struct {
	Alpha int32
	Beta  string
	Gamma int64
	Delta bool
	Eps   float64
	Zeta  []int32
	Eta   *Small
	Theta map[string]int32
	Iota  []string
	Kappa int16
}
type F388 struct {
	Alpha int32
	Beta  string
	Gamma int64
	Delta bool
	Eps   float64
	Zeta  []int32
	Eta   *Small
	Theta map[string]int32
	Iota  []string
	Kappa int16
}
type F389 struct {
	Alpha int32
	Beta  string
	Gamma int64
	Delta bool
	Eps   float64
	Zeta  []int32
	Eta   *Small
	Theta map[string]int32
	Iota  []string
	Kappa int16
}
type F390 struct {
	Alpha int32
	Beta  string
	Gamma int64
	Delta bool
	Eps   float64
	Zeta  []int32
	Eta   *Small
	Theta map[string]int32
	Iota  []string
	Kappa int16
}
type F391 struct {
	Alpha int32
	Beta  string
	Gamma int64
	Delta bool
	Eps   float64
	Zeta  []int32
	Eta   *Small
	Theta map[string]int32
	Iota  []string
	Kappa int16
}
type F392 struct {
	Alpha int32
	Beta  string
	Gamma int64
	Delta bool
	Eps   float64
	Zeta  []int32
	Eta   *Small
	Theta map[string]int32
	Iota  []string
	Kappa int16
}
type F393 struct {
	Alpha int32
	Beta  string
	Gamma int64
	Delta bool
	Eps   float64
	Zeta  []int32
	Eta   *Small
	Theta map[string]int32
	Iota  []string
	Kappa int16
}
type F394 struct {
	Alpha int32
	Beta  string
	Gamma int64
	Delta bool
	Eps   float64
	Zeta  []int32
	Eta   *Small
	Theta map[string]int32
	Iota  []string
	Kappa int16
}
type F395 struct {
	Alpha int32
	Beta  string
	Gamma int64
	Delta bool
	Eps   float64
	Zeta  []int32
	Eta   *Small
	Theta map[string]int32
	Iota  []string
	Kappa int16
}
type F396 struct {
	Alpha int32
	Beta  string
	Gamma int64
	Delta bool
	Eps   float64
	Zeta  []int32
	Eta   *Small
	Theta map[string]int32
	Iota  []string
	Kappa int16
}
type F397 struct {
	Alpha int32
	Beta  string
	Gamma int64
	Delta bool
	Eps   float64
	Zeta  []int32
	Eta   *Small
	Theta map[string]int32
	Iota  []string
	Kappa int16
}
type F398 struct {
	Alpha int32
	Beta  string
	Gamma int64
	Delta bool
	Eps   float64
	Zeta  []int32
	Eta   *Small
	Theta map[string]int32
	Iota  []string
	Kappa int16
}
type F399 struct {
	Alpha int32
	Beta  string
	Gamma int64
	Delta bool
	Eps   float64
	Zeta  []int32
	Eta   *Small
	Theta map[string]int32
	Iota  []string
	Kappa int16
}

// FreshTypes: one zero value per type.
var FreshTypes = []interface{}{
	F000{}, F001{}, F002{}, F003{}, F004{}, F005{}, F006{}, F007{},
	F008{}, F009{}, F010{}, F011{}, F012{}, F013{}, F014{}, F015{},
	F016{}, F017{}, F018{}, F019{}, F020{}, F021{}, F022{}, F023{},
	F024{}, F025{}, F026{}, F027{}, F028{}, F029{}, F030{}, F031{},
	F032{}, F033{}, F034{}, F035{}, F036{}, F037{}, F038{}, F039{},
	F040{}, F041{}, F042{}, F043{}, F044{}, F045{}, F046{}, F047{},
	F048{}, F049{}, F050{}, F051{}, F052{}, F053{}, F054{}, F055{},
	F056{}, F057{}, F058{}, F059{}, F060{}, F061{}, F062{}, F063{},
	F064{}, F065{}, F066{}, F067{}, F068{}, F069{}, F070{}, F071{},
	F072{}, F073{}, F074{}, F075{}, F076{}, F077{}, F078{}, F079{},
	F080{}, F081{}, F082{}, F083{}, F084{}, F085{}, F086{}, F087{},
	F088{}, F089{}, F090{}, F091{}, F092{}, F093{}, F094{}, F095{},
	F096{}, F097{}, F098{}, F099{}, F100{}, F101{}, F102{}, F103{},
	F104{}, F105{}, F106{}, F107{}, F108{}, F109{}, F110{}, F111{},
	F112{}, F113{}, F114{}, F115{}, F116{}, F117{}, F118{}, F119{},
	F120{}, F121{}, F122{}, F123{}, F124{}, F125{}, F126{}, F127{},
	F128{}, F129{}, F130{}, F131{}, F132{}, F133{}, F134{}, F135{},
	F136{}, F137{}, F138{}, F139{}, F140{}, F141{}, F142{}, F143{},
	F144{}, F145{}, F146{}, F147{}, F148{}, F149{}, F150{}, F151{},
	F152{}, F153{}, F154{}, F155{}, F156{}, F157{}, F158{}, F159{},
	F160{}, F161{}, F162{}, F163{}, F164{}, F165{}, F166{}, F167{},
	F168{}, F169{}, F170{}, F171{}, F172{}, F173{}, F174{}, F175{},
	F176{}, F177{}, F178{}, F179{}, F180{}, F181{}, F182{}, F183{},
	F184{}, F185{}, F186{}, F187{}, F188{}, F189{}, F190{}, F191{},
	F192{}, F193{}, F194{}, F195{}, F196{}, F197{}, F198{}, F199{},
	F200{}, F201{}, F202{}, F203{}, F204{}, F205{}, F206{}, F207{},
	F208{}, F209{}, F210{}, F211{}, F212{}, F213{}, F214{}, F215{},
	F216{}, F217{}, F218{}, F219{}, F220{}, F221{}, F222{}, F223{},
	F224{}, F225{}, F226{}, F227{}, F228{}, F229{}, F230{}, F231{},
	F232{}, F233{}, F234{}, F235{}, F236{}, F237{}, F238{}, F239{},
	F240{}, F241{}, F242{}, F243{}, F244{}, F245{}, F246{}, F247{},
	F248{}, F249{}, F250{}, F251{}, F252{}, F253{}, F254{}, F255{},
	F256{}, F257{}, F258{}, F259{}, F260{}, F261{}, F262{}, F263{},
	F264{}, F265{}, F266{}, F267{}, F268{}, F269{}, F270{}, F271{},
	F272{}, F273{}, F274{}, F275{}, F276{}, F277{}, F278{}, F279{},
	F280{}, F281{}, F282{}, F283{}, F284{}, F285{}, F286{}, F287{},
	F288{}, F289{}, F290{}, F291{}, F292{}, F293{}, F294{}, F295{},
	F296{}, F297{}, F298{}, F299{}, F300{}, F301{}, F302{}, F303{},
	F304{}, F305{}, F306{}, F307{}, F308{}, F309{}, F310{}, F311{},
	F312{}, F313{}, F314{}, F315{}, F316{}, F317{}, F318{}, F319{},
	F320{}, F321{}, F322{}, F323{}, F324{}, F325{}, F326{}, F327{},
	F328{}, F329{}, F330{}, F331{}, F332{}, F333{}, F334{}, F335{},
	F336{}, F337{}, F338{}, F339{}, F340{}, F341{}, F342{}, F343{},
	F344{}, F345{}, F346{}, F347{}, F348{}, F349{}, F350{}, F351{},
	F352{}, F353{}, F354{}, F355{}, F356{}, F357{}, F358{}, F359{},
	F360{}, F361{}, F362{}, F363{}, F364{}, F365{}, F366{}, F367{},
	F368{}, F369{}, F370{}, F371{}, F372{}, F373{}, F374{}, F375{},
	F376{}, F377{}, F378{}, F379{}, F380{}, F381{}, F382{}, F383{},
	F384{}, F385{}, F386{}, F387{}, F388{}, F389{}, F390{}, F391{},
	F392{}, F393{}, F394{}, F395{}, F396{}, F397{}, F398{}, F399{},
}
