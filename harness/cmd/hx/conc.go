package main

import (
	"bufio"
	"bytes"
	"encoding/json"
	"fmt"
	"go/ast"
	"go/parser"
	"go/token"
	"math/rand"
	"os"
	"path/filepath"
	"reflect"
	"sort"
	"strings"
	"sync"

	hessian "github.com/vogo/gohessian"
	"verifharness/drv"
	"verifharness/proj"
	"verifharness/zoo"
)

// concValues: shared read-only inputs (no multi-entry maps: octets are deterministic).
func concValues() ([]interface{}, map[string]reflect.Type, map[string]string) {
	x := &zoo.Small{Name: "x", N: 1}
	n1 := &zoo.Node{Name: "n1"}
	n2 := &zoo.Node{Name: "n2", A: n1, B: n1, L: []*zoo.Node{n1, nil}, M: map[string]*zoo.Node{"k": n1}}
	n1.A = n2
	vals := []interface{}{int32(7), "héllo", zoo.Small{Name: "a", N: 1}, x, []int32{1, 2, 3}, []string{"a", "", "b"},
		zoo.Item{K: "k", V: 1 << 40}, n2, zoo.CustomHolder{Title: "t", Items: []zoo.Custom{{Key: "k", Val: "v"}}},
		zoo.Scalars{I: 3, S: "s", F64: 2.5, Bin: []byte{1, 2}}, []interface{}{zoo.W00{V: 1}, &zoo.W01{V: 2}, zoo.W02{V: 3}},
		map[string]int32{"one": 1}, wideElems(18),
		strings.Repeat("a", 3000), strings.Repeat("b", 2500) + "é", strings.Repeat("c", 5000), bytes.Repeat([]byte{7}, 9000), bytes.Repeat([]byte{8}, 5000),
		[]string{strings.Repeat("x", 2100), "y"}}
	tm, nm := hessian.ExtractTypeNameMap(append([]interface{}{}, vals...))
	return vals, tm, nm
}

// foreignInputs: legal Hessian in forms this library's encoder never writes.
func foreignInputs() [][]byte {
	mid := append([]byte{0x34, 0x10}, bytes.Repeat([]byte{0xab}, 16)...)                    // binary, 2-octet length form
	mid2 := append([]byte{0x35, 0x10}, bytes.Repeat([]byte{0xcd}, 272)...)                  // 272 octets
	chunked := append(append([]byte{0x41, 0x00, 0x03, 1, 2, 3}, 0x34, 0x05), 4, 5, 6, 7, 8) // non-final chunk + mid form
	return [][]byte{mid, mid2, chunked,
		{0x57, 0x90, 0x91, 0x92, 0x5a}, // variable-length untyped list
		{0x7a, 0x72, 0x06, '[', 'i', 'n', 't', '3', '2', 0x90, 0x91, 0x73, 0x90, 0x92, 0x93, 0x94}, // type by reference
		{0x52, 0x00, 0x01, 'a', 0x53, 0x00, 0x05, 'h', 'e', 'l', 'l', 'o'},                         // chunked string
		{0x59, 0x00, 0x01, 0x00, 0x00}, {0x4c, 0, 0, 0, 1, 0, 0, 0, 0}, {0x5f, 0x3f, 0xc0, 0, 0}, // 4-octet long, long, float
		{0x58, 0x93, 0x91, 0x30, 0x03, 'a', 'b', 'c', 0x4e}, // counted untyped list, mid-form string
	}
}

// concInstance: an encoder/decoder pair (direct, or issued by the pools).
type concInstance struct {
	enc *hessian.Encoder
	dec *hessian.Decoder
	ser hessian.Serializer
	buf *bytes.Buffer
	rd  *drv.CountingReader
	ws  int
}

func newConcInstance(kind int, tm map[string]reflect.Type, nm map[string]string, ep, dp, sp hessian.Pool) *concInstance {
	c := &concInstance{buf: &bytes.Buffer{}, rd: &drv.CountingReader{}}
	switch kind % 3 {
	case 0:
		c.enc, c.dec = hessian.NewEncoder(nil, nm), hessian.NewDecoder(nil, tm)
	case 1:
		c.enc, c.dec = ep.Get().(*hessian.Encoder), dp.Get().(*hessian.Decoder)
	default:
		c.ser = sp.Get().(hessian.Serializer)
	}
	if c.enc != nil {
		c.enc.Reset(c.buf)
		c.dec.Reset(c.rd)
	}
	return c
}

// write the next value on this instance's stream and read it back
func (c *concInstance) step(v interface{}) (interface{}, int) {
	var r interface{}
	var err, err2 error
	before := c.buf.Len()
	_, p := drv.Call(func() {
		if c.enc != nil {
			err = c.enc.WriteObject(v)
			c.rd.B = append(c.rd.B, c.buf.Bytes()[before:]...)
			r, err2 = c.dec.ReadObject()
		} else {
			if c.ws == 0 {
				err = c.ser.WriteTo(c.buf, v)
			} else {
				err = c.ser.Write(v)
			}
			c.rd.B = append(c.rd.B, c.buf.Bytes()[before:]...)
			if c.ws == 0 {
				r, err2 = c.ser.ReadFrom(c.rd)
			} else {
				r, err2 = c.ser.Read()
			}
		}
		c.ws++
	})
	bad := b2i(p || err != nil || err2 != nil || drv.Carrier(r))
	if bad == 1 {
		r = nil
	}
	return r, bad
}

// runConcSched replays TLC-generated call schedules of N instances sequentially.
func runConcSched(vectors, out string, shards, only int) {
	w := newShardWriter(out, "trace", shards)
	defer w.close()
	vals, tm, nm := concValues()
	f, err := os.Open(vectors)
	if err != nil {
		panic(err)
	}
	defer f.Close()
	sc := bufio.NewScanner(f)
	sc.Buffer(make([]byte, 1<<20), 1<<26)
	seen := map[string]bool{}
	n := 0
	samples := []interface{}{}
	ep, dp, sp := hessian.NewEncoderPool(2, nm), hessian.NewDecoderPool(2, tm), hessian.NewSerializerPool(2, tm, nm)
	for sc.Scan() {
		if seen[sc.Text()] {
			continue
		}
		seen[sc.Text()] = true
		var vec struct {
			S []int `json:"s"`
		}
		if json.Unmarshal(sc.Bytes(), &vec) != nil {
			continue
		}
		for variant := 0; variant < 3; variant++ {
			id := n
			n++
			if only >= 0 && id != only {
				continue
			}
			ninst := 0
			for _, i := range vec.S {
				if i > ninst {
					ninst = i
				}
			}
			// value sequence of instance i: rotates through the shared inputs
			seqOf := func(i int) []interface{} {
				var s []interface{}
				k := 0
				for _, j := range vec.S {
					if j == i {
						s = append(s, vals[(i*5+k*3+variant*7+id)%len(vals)])
						k++
					}
				}
				return s
			}
			run := func(order []int) ([][]int, []proj.M, []int) {
				insts := make([]*concInstance, ninst+1)
				next := make([]int, ninst+1)
				var results []interface{}
				bads := []int{}
				for i := 1; i <= ninst; i++ {
					insts[i] = newConcInstance(i+variant, tm, nm, ep, dp, sp)
				}
				owner := []int{}
				for _, i := range order {
					r, bad := insts[i].step(seqOf(i)[next[i]])
					next[i]++
					results = append(results, r)
					bads = append(bads, bad)
					owner = append(owner, i)
				}
				outs := make([][]int, ninst)
				for i := 1; i <= ninst; i++ {
					outs[i-1] = proj.Octets(insts[i].buf.Bytes())
				}
				// results grouped per instance, in that instance's own order
				rs := make([]proj.M, ninst)
				for i := 1; i <= ninst; i++ {
					var mine []interface{}
					for k, o := range owner {
						if o == i {
							mine = append(mine, results[k])
						}
					}
					rs[i-1] = proj.New(nm).ProjectMany(mine)
				}
				return outs, rs, bads
			}
			// alone: every instance runs its whole sequence before the next one starts
			aloneOrder := []int{}
			for i := 1; i <= ninst; i++ {
				for _, j := range vec.S {
					if j == i {
						aloneOrder = append(aloneOrder, i)
					}
				}
			}
			outs, rs, bads := run(vec.S)
			aouts, ars, abads := run(aloneOrder)
			ev := proj.M{"ev": "conc", "sched": vec.S, "outs": outs, "alone": aouts, "rs": rs, "ars": ars, "bads": bads, "abads": abads,
				"label": fmt.Sprintf("sched/n%d/len%d/var%d", ninst, len(vec.S), variant)}
			if len(samples) < 3 {
				samples = append(samples, proj.M{"schedule": vec.S, "variant": variant})
			}
			w.writeID(ev, id)
		}
	}
	s := proj.M{"evaluations": n, "traces": n, "distinct_nontrivial": n, "samples": samples,
		"family_rule": "every call-granularity interleaving of HConc (TLC) x 3 assignments of instance kinds (direct encoder+decoder, pool-issued, pool-issued serializer) and shared input values; each instance streams its values and reads them back; compared with the same sequences run without interleaving"}
	b, _ := json.Marshal(s)
	os.WriteFile(out+"/summary.json", b, 0o644)
}

// freshValue builds a filled value of the k-th fresh type (a type nothing in this process has used).
func freshValue(k int) interface{} {
	t := reflect.TypeOf(zoo.FreshTypes[k])
	v := reflect.New(t).Elem()
	v.Field(0).SetInt(int64(k))
	v.Field(1).SetString(fmt.Sprintf("beta%d", k))
	v.Field(2).SetInt(int64(k) << 33)
	v.Field(3).SetBool(k%2 == 0)
	v.Field(4).SetFloat(float64(k) + 0.5)
	v.Field(5).Set(reflect.ValueOf([]int32{int32(k), 2}))
	v.Field(6).Set(reflect.ValueOf(&zoo.Small{Name: "s", N: int32(k)}))
	v.Field(7).Set(reflect.ValueOf(map[string]int32{"k": int32(k)}))
	v.Field(8).Set(reflect.ValueOf([]string{"a", ""}))
	v.Field(9).SetInt(int64(k % 100))
	return v.Interface()
}

// gate: a writer / reader that stops its caller at the after-th call until released.
type gate struct {
	n, after        int
	reached, resume chan struct{}
}

func newGate(after int) *gate {
	return &gate{after: after, reached: make(chan struct{}), resume: make(chan struct{})}
}

func (g *gate) pass() {
	if g.n == g.after {
		close(g.reached)
		<-g.resume
	}
	g.n++
}

type gateWriter struct {
	*gate
	buf bytes.Buffer
}

func (g *gateWriter) Write(p []byte) (int, error) {
	g.pass()
	return g.buf.Write(p)
}

type gateReader struct {
	*gate
	r drv.ChoppyReader
}

func (g *gateReader) Read(p []byte) (int, error) {
	g.pass()
	return g.r.Read(p)
}

func (g *gateReader) ReadRune() (rune, int, error) {
	g.pass()
	return g.r.ReadRune()
}

// safely runs f; a panic is reported as an error
func safely(f func() error) (err error) {
	defer func() {
		if r := recover(); r != nil {
			err = fmt.Errorf("panic: %v", r)
		}
	}()
	return f()
}

// gatePhase: instance A is stopped in the middle of its FIRST message of a fresh type (after k
// writes / reads) while instance B handles a whole message of the same type; then A goes on.
// Both must produce what a single instance produces alone (computed afterwards on map copies).
func gatePhase(w *shardWriter, id *int, tm map[string]reflect.Type, nm map[string]string, tmCopy map[string]reflect.Type, nmCopy map[string]string,
	ep, dp, sp hessian.Pool, first, count int) int {
	type res struct {
		k          int
		dec        bool
		in         []byte
		aOut, bOut []byte
		aR, bR     interface{}
		aBad, bBad int
	}
	var all []res
	for k := first; k < first+count; k++ {
		v := freshValue(k)
		r := res{k: k}
		if k%2 == 0 { // encoders
			gw := &gateWriter{gate: newGate((k / 2) % 34)}
			done := make(chan struct{})
			go func() {
				defer close(done)
				err := safely(func() error {
					switch (k / 2) % 3 {
					case 0:
						return hessian.NewEncoder(nil, nm).WriteTo(gw, v)
					case 1:
						e := ep.Get().(*hessian.Encoder)
						defer ep.Return(e)
						return e.WriteTo(gw, v)
					default:
						s := sp.Get().(hessian.Serializer)
						defer sp.Return(s)
						return s.WriteTo(gw, v)
					}
				})
				r.aBad = b2i(err != nil)
			}()
			select {
			case <-gw.reached:
			case <-done:
			}
			err := safely(func() error {
				var e error
				switch (k / 6) % 3 {
				case 0:
					r.bOut, e = hessian.NewEncoder(nil, nm).Encode(v)
				case 1:
					enc := ep.Get().(*hessian.Encoder)
					r.bOut, e = enc.Encode(v)
					ep.Return(enc)
				default:
					r.bOut, e = hessian.ToBytes(v, nm)
				}
				return e
			})
			r.bBad = b2i(err != nil)
			close(gw.resume)
			<-done
			r.aOut = gw.buf.Bytes()
		} else { // decoders: the input is rendered first (the encoder side has then seen the type, the decoder side has not)
			r.dec = true
			r.in, _ = hessian.ToBytes(v, nmCopy)
			gr := &gateReader{gate: newGate((k / 2) % 20), r: drv.ChoppyReader{B: r.in, Max: 3}}
			done := make(chan struct{})
			go func() {
				defer close(done)
				err := safely(func() error {
					var e error
					switch (k / 2) % 3 {
					case 0:
						r.aR, e = hessian.NewDecoder(nil, tm).ReadFrom(gr)
					case 1:
						d := dp.Get().(*hessian.Decoder)
						defer dp.Return(d)
						r.aR, e = d.ReadFrom(gr)
					default:
						s := sp.Get().(hessian.Serializer)
						defer sp.Return(s)
						r.aR, e = s.ReadFrom(gr)
					}
					return e
				})
				r.aBad = b2i(err != nil)
			}()
			select {
			case <-gr.reached:
			case <-done:
			}
			err := safely(func() error {
				var e error
				if (k/6)%2 == 0 {
					r.bR, e = hessian.NewDecoder(nil, tm).Decode(r.in)
				} else {
					r.bR, e = hessian.ToObject(r.in, tm)
				}
				return e
			})
			r.bBad = b2i(err != nil)
			close(gr.resume)
			<-done
		}
		all = append(all, r)
	}
	// afterwards: what one instance alone produces
	for _, r := range all {
		v := freshValue(r.k)
		ev := proj.M{"ev": "conc", "sched": []int{1, 2, 1}, "bads": []int{r.aBad, r.bBad}, "abads": []int{0, 0}}
		if !r.dec {
			alone, _ := hessian.ToBytes(v, nmCopy)
			ev["outs"] = [][]int{proj.Octets(r.aOut), proj.Octets(r.bOut)}
			ev["alone"] = [][]int{proj.Octets(alone), proj.Octets(alone)}
			ev["rs"], ev["ars"] = []proj.M{}, []proj.M{}
			ev["label"] = fmt.Sprintf("gate/encode/F%03d/after%d", r.k, (r.k/2)%34)
		} else {
			alone, _ := hessian.ToObject(r.in, tmCopy)
			ev["outs"], ev["alone"] = [][]int{}, [][]int{}
			ev["rs"] = []proj.M{proj.New(nm).ProjectMany([]interface{}{r.aR}), proj.New(nm).ProjectMany([]interface{}{r.bR})}
			ev["ars"] = []proj.M{proj.New(nm).ProjectMany([]interface{}{alone}), proj.New(nm).ProjectMany([]interface{}{alone})}
			ev["label"] = fmt.Sprintf("gate/decode/F%03d/after%d", r.k, (r.k/2)%20)
		}
		w.writeID(ev, *id)
		*id++
	}
	return len(all)
}

// failing calls with deterministic messages
var concFailing = []interface{}{zoo.BadChan{}, []interface{}{int32(1), make(chan int)}, map[string]interface{}{"f": func() {}}}
var concGarbage = [][]byte{{0x43, 0x05, 'a'}, {0x7a, 0x91}, {0x51, 0x95}, {0x4f, 0x95}, {0x56, 0x03, 'x', 'y', 'z', 0x92, 0x91, 0x92}, {0x48, 0x91}, {0x40}}

// runConcLoad: goroutines with their own instances over shared maps and shared inputs.
func runConcLoad(seed int64, tier, out string, shards int) {
	w := newShardWriter(out, "trace", shards)
	defer w.close()
	vals, _, _ := concValues()
	nFresh := 120
	if tier == "thorough" {
		nFresh = len(zoo.FreshTypes)
	}
	var allv []interface{}
	allv = append(allv, vals...)
	for k := 0; k < len(zoo.FreshTypes); k++ {
		allv = append(allv, freshValue(k))
	}
	tm, nm := hessian.ExtractTypeNameMap(allv)
	// what every call returns when run alone is computed AFTERWARDS and over COPIES of the maps, so that
	// the shared maps, and whatever the library keeps per type or per call site, are first touched by the
	// concurrent phase itself
	nmCopy := map[string]string{}
	for k, v := range nm {
		nmCopy[k] = v
	}
	tmCopy := map[string]reflect.Type{}
	for k, v := range tm {
		tmCopy[k] = v
	}
	foreign := foreignInputs()
	r := rand.New(rand.NewSource(seed))
	rounds := 4
	calls := 60
	if tier == "thorough" {
		rounds, calls = 12, 400
	}
	id := 0
	total := 0
	samples := []interface{}{}
	type rec struct {
		vi   int
		out  []int
		bad  int
		rbad int
		r    interface{}
	}
	type frec struct {
		fi int
		r  interface{}
		e  int
	}
	type erec struct {
		enc bool
		i   int
		msg string
	}
	type roundLog struct {
		gs    int
		logs  [][]rec
		flogs [][]frec
		elogs [][]erec
	}
	var rls []roundLog
	for round := 0; round < rounds; round++ {
		gs := []int{2, 3, 8, 16, 32, 64}[r.Intn(6)]
		ep, dp, sp := hessian.NewEncoderPool(4, nm), hessian.NewDecoderPool(4, tm), hessian.NewSerializerPool(4, tm, nm)
		if round == 0 {
			total += gatePhase(w, &id, tm, nm, tmCopy, nmCopy, ep, dp, sp, 0, nFresh)
		}
		rl := roundLog{gs: gs, logs: make([][]rec, gs), flogs: make([][]frec, gs), elogs: make([][]erec, gs)}
		var wg sync.WaitGroup
		start := make(chan struct{})
		for g := 0; g < gs; g++ {
			wg.Add(1)
			rg := rand.New(rand.NewSource(seed*100 + int64(round)*1000 + int64(g)))
			go func(g int) {
				defer wg.Done()
				<-start
				for c := 0; c < calls; c++ {
					vi := rg.Intn(len(vals))
					var b []byte
					var err, err2 error
					var res interface{}
					err = safely(func() error {
						var e error
						switch (g + c) % 4 {
						case 0:
							b, e = hessian.ToBytes(vals[vi], nm)
						case 1:
							enc := ep.Get().(*hessian.Encoder)
							b, e = enc.Encode(vals[vi])
							ep.Return(enc)
						case 2:
							s := sp.Get().(hessian.Serializer)
							b, e = s.ToBytes(vals[vi])
							sp.Return(s)
						default:
							b, e = hessian.NewEncoder(nil, nm).Encode(vals[vi])
						}
						return e
					})
					err2 = safely(func() error {
						var e error
						switch (g + c) % 4 {
						case 0:
							res, e = hessian.ToObject(b, tm)
						case 1:
							d := dp.Get().(*hessian.Decoder)
							res, e = d.Decode(b)
							dp.Return(d)
						case 2:
							s := sp.Get().(hessian.Serializer)
							res, e = s.ToObject(b)
							sp.Return(s)
						default:
							res, e = hessian.NewDecoder(nil, tm).Decode(b)
						}
						return e
					})
					rc := rec{vi: vi, out: proj.Octets(b), bad: b2i(err != nil), rbad: b2i(err2 != nil)}
					if c < 6 {
						rc.r = res
					}
					rl.logs[g] = append(rl.logs[g], rc)
					// one foreign-form input per call, through a pooled decoder
					fi := rg.Intn(len(foreign))
					var fr interface{}
					ferr := safely(func() error {
						d := dp.Get().(*hessian.Decoder)
						var e error
						fr, e = d.ReadFrom(&drv.ChoppyReader{B: foreign[fi], Max: 1 + rg.Intn(4)})
						dp.Return(d)
						return e
					})
					rl.flogs[g] = append(rl.flogs[g], frec{fi, fr, b2i(ferr != nil)})
					// and calls that fail: the error paths run concurrently too (from the very first call on)
					if c < 4 || c%4 == 0 {
						i := rg.Intn(len(concFailing))
						e1 := safely(func() error { _, e := hessian.ToBytes(concFailing[i], nm); return e })
						rl.elogs[g] = append(rl.elogs[g], erec{true, i, drv.ErrStr(e1)})
						j := rg.Intn(len(concGarbage))
						e2 := safely(func() error { _, e := hessian.ToObject(concGarbage[j], tm); return e })
						rl.elogs[g] = append(rl.elogs[g], erec{false, j, drv.ErrStr(e2)})
					}
				}
			}(g)
		}
		close(start)
		wg.Wait()
		rls = append(rls, rl)
		if len(samples) < 3 {
			samples = append(samples, proj.M{"goroutines": gs, "calls_each": calls})
		}
	}
	// afterwards: every call alone
	alone := make([][]int, len(vals))
	for i, v := range vals {
		b, _ := hessian.ToBytes(v, nmCopy)
		alone[i] = proj.Octets(b)
	}
	foreignAlone := make([]interface{}, len(foreign))
	for i, b := range foreign {
		foreignAlone[i], _ = hessian.ToObject(b, tmCopy)
	}
	encAlone := make([]string, len(concFailing))
	for i, v := range concFailing {
		_, e := hessian.ToBytes(v, nmCopy)
		encAlone[i] = drv.ErrStr(e)
	}
	decAlone := make([]string, len(concGarbage))
	for i, b := range concGarbage {
		_, e := hessian.ToObject(b, tmCopy)
		decAlone[i] = drv.ErrStr(e)
	}
	for round, rl := range rls {
		for g := 0; g < rl.gs; g++ {
			cs := [][]interface{}{}
			var rsamp []interface{}
			var rvi []int
			for c, rc := range rl.logs[g] {
				cs = append(cs, []interface{}{rc.vi + 1, rc.out, rc.bad, rc.rbad})
				if c < 6 {
					rsamp = append(rsamp, rc.r)
					rvi = append(rvi, rc.vi+1)
				}
			}
			P := proj.New(nm)
			pairs := []proj.M{}
			for k, vi := range rvi {
				pairs = append(pairs, proj.M{"v": P.Project(vals[vi-1]).JSON(), "r": P.Project(rsamp[k]).JSON()})
			}
			// foreign inputs: the differing pairs (result alone, result under load) are handed to TLC
			for _, fr := range rl.flogs[g] {
				if (fr.e == 1 || !reflect.DeepEqual(fr.r, foreignAlone[fr.fi])) && len(pairs) < 12 {
					pairs = append(pairs, proj.M{"v": P.Project(foreignAlone[fr.fi]).JSON(), "r": P.Project(fr.r).JSON()})
				}
			}
			errs := [][]string{}
			for _, er := range rl.elogs[g] {
				if er.enc {
					errs = append(errs, []string{er.msg, encAlone[er.i]})
				} else {
					errs = append(errs, []string{er.msg, decAlone[er.i]})
				}
			}
			ev := proj.M{"ev": "concload", "g": g, "gs": rl.gs, "calls": cs, "alone": alone, "rvi": rvi,
				"pairs": pairs, "T": P.Types, "errs": errs,
				"label": fmt.Sprintf("load/round%d/g%d of %d", round, g, rl.gs)}
			w.writeID(ev, id)
			id++
			total += len(cs)
		}
	}
	s := proj.M{"evaluations": total, "traces": id, "distinct_nontrivial": id, "samples": samples,
		"family_rule": "gate phase: an instance stopped after k writes / reads of its FIRST message of a type nothing in the process has used, while a second instance handles a whole message of that type (k = 0..33, direct / pool-issued / serializer), 120 (400) fresh types; load phase: 2..64 goroutines released together, each with its own (direct, pool-issued) encoder/decoder/serializer over shared maps and shared read-only inputs, failing calls included, race-detector build; every call's octets, results and error texts compared with the same call alone, computed afterwards"}
	b, _ := json.Marshal(s)
	os.WriteFile(out+"/summary.json", b, 0o644)
}

// runInventory lists the package-level variables of the library and the
// functions that assign to them (standard library parser only).
func runInventory(repo, out string) {
	fset := token.NewFileSet()
	files, _ := filepath.Glob(repo + "/*.go")
	vars := map[string]map[string]bool{}
	var parsed []*ast.File
	for _, fn := range files {
		if strings.HasSuffix(fn, "_test.go") {
			continue
		}
		f, err := parser.ParseFile(fset, fn, nil, 0)
		if err != nil {
			continue
		}
		parsed = append(parsed, f)
		for _, d := range f.Decls {
			if gd, ok := d.(*ast.GenDecl); ok && gd.Tok == token.VAR {
				for _, sp := range gd.Specs {
					for _, n := range sp.(*ast.ValueSpec).Names {
						vars[n.Name] = map[string]bool{}
					}
				}
			}
		}
	}
	root := func(e ast.Expr) string {
		for {
			switch x := e.(type) {
			case *ast.Ident:
				return x.Name
			case *ast.IndexExpr:
				e = x.X
			case *ast.SelectorExpr:
				e = x.X
			case *ast.StarExpr:
				e = x.X
			case *ast.ParenExpr:
				e = x.X
			default:
				return ""
			}
		}
	}
	for _, f := range parsed {
		for _, d := range f.Decls {
			fd, ok := d.(*ast.FuncDecl)
			if !ok || fd.Body == nil {
				continue
			}
			// names declared locally shadow package-level ones: collect them (coarse, per function)
			local := map[string]bool{}
			ast.Inspect(fd, func(n ast.Node) bool {
				switch x := n.(type) {
				case *ast.AssignStmt:
					if x.Tok == token.DEFINE {
						for _, l := range x.Lhs {
							if id, ok := l.(*ast.Ident); ok {
								local[id.Name] = true
							}
						}
					}
				case *ast.Field:
					for _, nm := range x.Names {
						local[nm.Name] = true
					}
				case *ast.ValueSpec:
					for _, nm := range x.Names {
						local[nm.Name] = true
					}
				}
				return true
			})
			ast.Inspect(fd.Body, func(n ast.Node) bool {
				mark := func(e ast.Expr) {
					r := root(e)
					if _, ok := vars[r]; ok && !local[r] {
						vars[r][fd.Name.Name] = true
					}
				}
				switch x := n.(type) {
				case *ast.AssignStmt:
					if x.Tok != token.DEFINE {
						for _, l := range x.Lhs {
							mark(l)
						}
					}
				case *ast.IncDecStmt:
					mark(x.X)
				}
				return true
			})
		}
	}
	names := make([]string, 0, len(vars))
	for k := range vars {
		names = append(names, k)
	}
	sort.Strings(names)
	list := []proj.M{}
	for _, k := range names {
		ws := []string{}
		for f := range vars[k] {
			ws = append(ws, f)
		}
		sort.Strings(ws)
		list = append(list, proj.M{"name": k, "writers": ws})
	}
	os.MkdirAll(out, 0o755)
	b, _ := json.Marshal(proj.M{"ev": "inventory", "id": 0, "vars": list})
	os.WriteFile(out+"/trace.00.ndjson", append(b, '\n'), 0o644)
}
