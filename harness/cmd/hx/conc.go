package main

import (
	"bufio"
	"bytes"
	"encoding/json"
	"fmt"
	"go/ast"
	"go/parser"
	"go/token"
	"math/rand"
	"os"
	"path/filepath"
	"reflect"
	"sort"
	"strings"
	"sync"

	hessian "github.com/vogo/gohessian"
	"verifharness/drv"
	"verifharness/proj"
	"verifharness/zoo"
)

// concValues: shared read-only inputs (no multi-entry maps: octets are deterministic).
func concValues() ([]interface{}, map[string]reflect.Type, map[string]string) {
	x := &zoo.Small{Name: "x", N: 1}
	n1 := &zoo.Node{Name: "n1"}
	n2 := &zoo.Node{Name: "n2", A: n1, B: n1, L: []*zoo.Node{n1, nil}, M: map[string]*zoo.Node{"k": n1}}
	n1.A = n2
	vals := []interface{}{int32(7), "héllo", zoo.Small{Name: "a", N: 1}, x, []int32{1, 2, 3}, []string{"a", "", "b"},
		zoo.Item{K: "k", V: 1 << 40}, n2, zoo.CustomHolder{Title: "t", Items: []zoo.Custom{{Key: "k", Val: "v"}}},
		zoo.Scalars{I: 3, S: "s", F64: 2.5, Bin: []byte{1, 2}}, []interface{}{zoo.W00{V: 1}, &zoo.W01{V: 2}, zoo.W02{V: 3}},
		map[string]int32{"one": 1}, wideElems(18),
		strings.Repeat("a", 3000), strings.Repeat("b", 2500) + "é", strings.Repeat("c", 5000), bytes.Repeat([]byte{7}, 9000), bytes.Repeat([]byte{8}, 5000),
		[]string{strings.Repeat("x", 2100), "y"}}
	tm, nm := hessian.ExtractTypeNameMap(append([]interface{}{}, vals...))
	return vals, tm, nm
}

// foreignInputs: legal Hessian in forms this library's encoder never writes.
func foreignInputs() [][]byte {
	mid := append([]byte{0x34, 0x10}, bytes.Repeat([]byte{0xab}, 16)...)                    // binary, 2-octet length form
	mid2 := append([]byte{0x35, 0x10}, bytes.Repeat([]byte{0xcd}, 272)...)                  // 272 octets
	chunked := append(append([]byte{0x41, 0x00, 0x03, 1, 2, 3}, 0x34, 0x05), 4, 5, 6, 7, 8) // non-final chunk + mid form
	return [][]byte{mid, mid2, chunked,
		{0x57, 0x90, 0x91, 0x92, 0x5a}, // variable-length untyped list
		{0x7a, 0x72, 0x06, '[', 'i', 'n', 't', '3', '2', 0x90, 0x91, 0x73, 0x90, 0x92, 0x93, 0x94}, // type by reference
		{0x52, 0x00, 0x01, 'a', 0x53, 0x00, 0x05, 'h', 'e', 'l', 'l', 'o'},                         // chunked string
		{0x59, 0x00, 0x01, 0x00, 0x00}, {0x4c, 0, 0, 0, 1, 0, 0, 0, 0}, {0x5f, 0x3f, 0xc0, 0, 0}, // 4-octet long, long, float
		{0x58, 0x93, 0x91, 0x30, 0x03, 'a', 'b', 'c', 0x4e}, // counted untyped list, mid-form string
	}
}

// concInstance: an encoder/decoder pair (direct, or issued by the pools).
type concInstance struct {
	enc *hessian.Encoder
	dec *hessian.Decoder
	ser hessian.Serializer
	buf *bytes.Buffer
	rd  *drv.CountingReader
	ws  int
}

func newConcInstance(kind int, tm map[string]reflect.Type, nm map[string]string, ep, dp, sp hessian.Pool) *concInstance {
	c := &concInstance{buf: &bytes.Buffer{}, rd: &drv.CountingReader{}}
	switch kind % 3 {
	case 0:
		c.enc, c.dec = hessian.NewEncoder(nil, nm), hessian.NewDecoder(nil, tm)
	case 1:
		c.enc, c.dec = ep.Get().(*hessian.Encoder), dp.Get().(*hessian.Decoder)
	default:
		c.ser = sp.Get().(hessian.Serializer)
	}
	if c.enc != nil {
		c.enc.Reset(c.buf)
		c.dec.Reset(c.rd)
	}
	return c
}

// write the next value on this instance's stream and read it back
func (c *concInstance) step(v interface{}) (interface{}, int) {
	var r interface{}
	var err, err2 error
	before := c.buf.Len()
	_, p := drv.Call(func() {
		if c.enc != nil {
			err = c.enc.WriteObject(v)
			c.rd.B = append(c.rd.B, c.buf.Bytes()[before:]...)
			r, err2 = c.dec.ReadObject()
		} else {
			if c.ws == 0 {
				err = c.ser.WriteTo(c.buf, v)
			} else {
				err = c.ser.Write(v)
			}
			c.rd.B = append(c.rd.B, c.buf.Bytes()[before:]...)
			if c.ws == 0 {
				r, err2 = c.ser.ReadFrom(c.rd)
			} else {
				r, err2 = c.ser.Read()
			}
		}
		c.ws++
	})
	bad := b2i(p || err != nil || err2 != nil || drv.Carrier(r))
	if bad == 1 {
		r = nil
	}
	return r, bad
}

// runConcSched replays TLC-generated call schedules of N instances sequentially.
func runConcSched(vectors, out string, shards, only int) {
	w := newShardWriter(out, "trace", shards)
	defer w.close()
	vals, tm, nm := concValues()
	f, err := os.Open(vectors)
	if err != nil {
		panic(err)
	}
	defer f.Close()
	sc := bufio.NewScanner(f)
	sc.Buffer(make([]byte, 1<<20), 1<<26)
	seen := map[string]bool{}
	n := 0
	samples := []interface{}{}
	ep, dp, sp := hessian.NewEncoderPool(2, nm), hessian.NewDecoderPool(2, tm), hessian.NewSerializerPool(2, tm, nm)
	for sc.Scan() {
		if seen[sc.Text()] {
			continue
		}
		seen[sc.Text()] = true
		var vec struct {
			S []int `json:"s"`
		}
		if json.Unmarshal(sc.Bytes(), &vec) != nil {
			continue
		}
		for variant := 0; variant < 3; variant++ {
			id := n
			n++
			if only >= 0 && id != only {
				continue
			}
			ninst := 0
			for _, i := range vec.S {
				if i > ninst {
					ninst = i
				}
			}
			// value sequence of instance i: rotates through the shared inputs
			seqOf := func(i int) []interface{} {
				var s []interface{}
				k := 0
				for _, j := range vec.S {
					if j == i {
						s = append(s, vals[(i*5+k*3+variant*7+id)%len(vals)])
						k++
					}
				}
				return s
			}
			run := func(order []int) ([][]int, []proj.M, []int) {
				insts := make([]*concInstance, ninst+1)
				next := make([]int, ninst+1)
				var results []interface{}
				bads := []int{}
				for i := 1; i <= ninst; i++ {
					insts[i] = newConcInstance(i+variant, tm, nm, ep, dp, sp)
				}
				owner := []int{}
				for _, i := range order {
					r, bad := insts[i].step(seqOf(i)[next[i]])
					next[i]++
					results = append(results, r)
					bads = append(bads, bad)
					owner = append(owner, i)
				}
				outs := make([][]int, ninst)
				for i := 1; i <= ninst; i++ {
					outs[i-1] = proj.Octets(insts[i].buf.Bytes())
				}
				// results grouped per instance, in that instance's own order
				rs := make([]proj.M, ninst)
				for i := 1; i <= ninst; i++ {
					var mine []interface{}
					for k, o := range owner {
						if o == i {
							mine = append(mine, results[k])
						}
					}
					rs[i-1] = proj.New(nm).ProjectMany(mine)
				}
				return outs, rs, bads
			}
			// alone: every instance runs its whole sequence before the next one starts
			aloneOrder := []int{}
			for i := 1; i <= ninst; i++ {
				for _, j := range vec.S {
					if j == i {
						aloneOrder = append(aloneOrder, i)
					}
				}
			}
			outs, rs, bads := run(vec.S)
			aouts, ars, abads := run(aloneOrder)
			ev := proj.M{"ev": "conc", "sched": vec.S, "outs": outs, "alone": aouts, "rs": rs, "ars": ars, "bads": bads, "abads": abads,
				"label": fmt.Sprintf("sched/n%d/len%d/var%d", ninst, len(vec.S), variant)}
			if len(samples) < 3 {
				samples = append(samples, proj.M{"schedule": vec.S, "variant": variant})
			}
			w.writeID(ev, id)
		}
	}
	s := proj.M{"evaluations": n, "traces": n, "distinct_nontrivial": n, "samples": samples,
		"family_rule": "every call-granularity interleaving of HConc (TLC) x 3 assignments of instance kinds (direct encoder+decoder, pool-issued, pool-issued serializer) and shared input values; each instance streams its values and reads them back; compared with the same sequences run without interleaving"}
	b, _ := json.Marshal(s)
	os.WriteFile(out+"/summary.json", b, 0o644)
}

// runConcLoad: goroutines with their own instances over shared maps and shared inputs.
func runConcLoad(seed int64, tier, out string, shards int) {
	w := newShardWriter(out, "trace", shards)
	defer w.close()
	vals, tm, nm := concValues()
	// what every call returns when run alone: computed over COPIES of the maps, so that the
	// shared maps are first touched by the concurrent phase itself
	nmCopy := map[string]string{}
	for k, v := range nm {
		nmCopy[k] = v
	}
	tmCopy := map[string]reflect.Type{}
	for k, v := range tm {
		tmCopy[k] = v
	}
	alone := make([][]int, len(vals))
	for i, v := range vals {
		b, _ := hessian.ToBytes(v, nmCopy)
		alone[i] = proj.Octets(b)
	}
	// legal encodings in wire forms the library's encoder never writes, decoded concurrently
	foreign := foreignInputs()
	foreignAlone := make([]interface{}, len(foreign))
	for i, b := range foreign {
		foreignAlone[i], _ = hessian.ToObject(b, tmCopy)
	}
	r := rand.New(rand.NewSource(seed))
	rounds := 4
	calls := 60
	if tier == "thorough" {
		rounds, calls = 12, 400
	}
	id := 0
	total := 0
	samples := []interface{}{}
	for round := 0; round < rounds; round++ {
		gs := []int{2, 3, 8, 16, 32, 64}[r.Intn(6)]
		ep, dp, sp := hessian.NewEncoderPool(4, nm), hessian.NewDecoderPool(4, tm), hessian.NewSerializerPool(4, tm, nm)
		type rec struct {
			vi   int
			out  []int
			bad  int
			rbad int
			r    interface{}
		}
		logs := make([][]rec, gs)
		type frec struct {
			fi int
			r  interface{}
		}
		flogs := make([][]frec, gs) // foreign inputs whose concurrent result differs from the result alone
		var wg sync.WaitGroup
		for g := 0; g < gs; g++ {
			wg.Add(1)
			rg := rand.New(rand.NewSource(seed*100 + int64(round)*1000 + int64(g)))
			go func(g int) {
				defer wg.Done()
				for c := 0; c < calls; c++ {
					vi := rg.Intn(len(vals))
					var b []byte
					var err, err2 error
					var res interface{}
					switch (g + c) % 4 {
					case 0:
						b, err = hessian.ToBytes(vals[vi], nm)
						res, err2 = hessian.ToObject(b, tm)
					case 1:
						e := ep.Get().(*hessian.Encoder)
						b, err = e.Encode(vals[vi])
						ep.Return(e)
						d := dp.Get().(*hessian.Decoder)
						res, err2 = d.Decode(b)
						dp.Return(d)
					case 2:
						s := sp.Get().(hessian.Serializer)
						b, err = s.ToBytes(vals[vi])
						res, err2 = s.ToObject(b)
						sp.Return(s)
					default:
						e := hessian.NewEncoder(nil, nm)
						b, err = e.Encode(vals[vi])
						res, err2 = hessian.NewDecoder(nil, tm).Decode(b)
					}
					rc := rec{vi: vi, out: proj.Octets(b), bad: b2i(err != nil), rbad: b2i(err2 != nil)}
					if c < 6 {
						rc.r = res
					}
					logs[g] = append(logs[g], rc)
					// and one foreign-form input per call, through a pooled decoder
					fi := rg.Intn(len(foreign))
					d := dp.Get().(*hessian.Decoder)
					fr, ferr := d.ReadFrom(&drv.ChoppyReader{B: foreign[fi], Max: 1 + rg.Intn(4)})
					dp.Return(d)
					if ferr != nil || !reflect.DeepEqual(fr, foreignAlone[fi]) {
						flogs[g] = append(flogs[g], frec{fi, fr})
					}
				}
			}(g)
		}
		wg.Wait()
		for g := 0; g < gs; g++ {
			cs := [][]interface{}{}
			var rsamp []interface{}
			var rvi []int
			for c, rc := range logs[g] {
				cs = append(cs, []interface{}{rc.vi + 1, rc.out, rc.bad, rc.rbad})
				if c < 6 {
					rsamp = append(rsamp, rc.r)
					rvi = append(rvi, rc.vi+1)
				}
			}
			P := proj.New(nm)
			pairs := []proj.M{}
			for k, vi := range rvi {
				pairs = append(pairs, proj.M{"v": P.Project(vals[vi-1]).JSON(), "r": P.Project(rsamp[k]).JSON()})
			}
			// foreign inputs: the differing pairs (result alone, result under load) are handed to TLC
			for _, fr := range flogs[g] {
				if len(pairs) < 12 {
					pairs = append(pairs, proj.M{"v": P.Project(foreignAlone[fr.fi]).JSON(), "r": P.Project(fr.r).JSON()})
				}
			}
			ev := proj.M{"ev": "concload", "g": g, "gs": gs, "calls": cs, "alone": alone, "rvi": rvi,
				"pairs": pairs, "T": P.Types,
				"label": fmt.Sprintf("load/round%d/g%d of %d", round, g, gs)}
			w.writeID(ev, id)
			id++
			total += len(cs)
		}
		if len(samples) < 3 {
			samples = append(samples, proj.M{"goroutines": gs, "calls_each": calls})
		}
	}
	s := proj.M{"evaluations": total, "traces": id, "distinct_nontrivial": id, "samples": samples,
		"family_rule": "2..64 goroutines, each with its own (direct, pool-issued) encoder/decoder/serializer over shared maps and shared read-only inputs, race-detector build; every call's octets compared with the octets of the same call alone"}
	b, _ := json.Marshal(s)
	os.WriteFile(out+"/summary.json", b, 0o644)
}

// runInventory lists the package-level variables of the library and the
// functions that assign to them (standard library parser only).
func runInventory(repo, out string) {
	fset := token.NewFileSet()
	files, _ := filepath.Glob(repo + "/*.go")
	vars := map[string]map[string]bool{}
	var parsed []*ast.File
	for _, fn := range files {
		if strings.HasSuffix(fn, "_test.go") {
			continue
		}
		f, err := parser.ParseFile(fset, fn, nil, 0)
		if err != nil {
			continue
		}
		parsed = append(parsed, f)
		for _, d := range f.Decls {
			if gd, ok := d.(*ast.GenDecl); ok && gd.Tok == token.VAR {
				for _, sp := range gd.Specs {
					for _, n := range sp.(*ast.ValueSpec).Names {
						vars[n.Name] = map[string]bool{}
					}
				}
			}
		}
	}
	root := func(e ast.Expr) string {
		for {
			switch x := e.(type) {
			case *ast.Ident:
				return x.Name
			case *ast.IndexExpr:
				e = x.X
			case *ast.SelectorExpr:
				e = x.X
			case *ast.StarExpr:
				e = x.X
			case *ast.ParenExpr:
				e = x.X
			default:
				return ""
			}
		}
	}
	for _, f := range parsed {
		for _, d := range f.Decls {
			fd, ok := d.(*ast.FuncDecl)
			if !ok || fd.Body == nil {
				continue
			}
			// names declared locally shadow package-level ones: collect them (coarse, per function)
			local := map[string]bool{}
			ast.Inspect(fd, func(n ast.Node) bool {
				switch x := n.(type) {
				case *ast.AssignStmt:
					if x.Tok == token.DEFINE {
						for _, l := range x.Lhs {
							if id, ok := l.(*ast.Ident); ok {
								local[id.Name] = true
							}
						}
					}
				case *ast.Field:
					for _, nm := range x.Names {
						local[nm.Name] = true
					}
				case *ast.ValueSpec:
					for _, nm := range x.Names {
						local[nm.Name] = true
					}
				}
				return true
			})
			ast.Inspect(fd.Body, func(n ast.Node) bool {
				mark := func(e ast.Expr) {
					r := root(e)
					if _, ok := vars[r]; ok && !local[r] {
						vars[r][fd.Name.Name] = true
					}
				}
				switch x := n.(type) {
				case *ast.AssignStmt:
					if x.Tok != token.DEFINE {
						for _, l := range x.Lhs {
							mark(l)
						}
					}
				case *ast.IncDecStmt:
					mark(x.X)
				}
				return true
			})
		}
	}
	names := make([]string, 0, len(vars))
	for k := range vars {
		names = append(names, k)
	}
	sort.Strings(names)
	list := []proj.M{}
	for _, k := range names {
		ws := []string{}
		for f := range vars[k] {
			ws = append(ws, f)
		}
		sort.Strings(ws)
		list = append(list, proj.M{"name": k, "writers": ws})
	}
	os.MkdirAll(out, 0o755)
	b, _ := json.Marshal(proj.M{"ev": "inventory", "id": 0, "vars": list})
	os.WriteFile(out+"/trace.00.ndjson", append(b, '\n'), 0o644)
}
