package main

import (
	"crypto/sha1"
	"encoding/json"
	"fmt"
	"math"
	"os"
	"reflect"
	"strings"
	"time"
	"unsafe"

	"verifharness/drv"
	"verifharness/gen"
	"verifharness/proj"
	"verifharness/zoo"

	hessian "github.com/vogo/gohessian"
)

func hessianExtract(v interface{}) (map[string]reflect.Type, map[string]string) {
	return hessian.ExtractTypeNameMap(v)
}

// emitter runs one round trip per generated value and writes the event.
type emitter struct {
	collect  func(label string, v interface{}) // when set, values are collected instead of run
	w        *shardWriter
	only     int
	n        int
	distinct map[[20]byte]bool
	samples  []interface{}
	fam      string
}

func (e *emitter) emit(label string, v interface{}) {
	if e.collect != nil {
		e.collect(label, v)
		return
	}
	e.emitEv(label, func() proj.M { return drv.RoundTrip(v) })
}

// emitStructsOnly: the name map names the classes only, so every list is written untyped and is
// converted to the declared slice type by the decoder.
func (e *emitter) emitStructsOnly(label string, v interface{}) {
	if e.collect != nil {
		return
	}
	e.emitEv(label, func() proj.M {
		typMap, nameMap := hessian.ExtractTypeNameMap(v)
		for k, n := range nameMap {
			if strings.HasPrefix(k, "[") || strings.HasPrefix(n, "[") {
				delete(nameMap, k)
			}
		}
		ev := drv.RoundTripWith(v, typMap, nameMap)
		ev["xpanic"], ev["xmsg"] = 0, ""
		return ev
	})
}

// emitBehind: the encoder is handed a pointer to v (v itself being a pointer); the result is compared with v.
func (e *emitter) emitBehind(label string, v interface{}) {
	if e.collect != nil {
		return
	}
	e.emitEv(label, func() proj.M {
		typMap, nameMap := hessian.ExtractTypeNameMap(v)
		p := reflect.New(reflect.TypeOf(v))
		p.Elem().Set(reflect.ValueOf(v))
		ev := drv.RoundTripAs(v, p.Interface(), typMap, nameMap)
		ev["xpanic"], ev["xmsg"] = 0, ""
		return ev
	})
}

func (e *emitter) emitEv(label string, mk func() proj.M) {
	id := e.n
	e.n++
	if e.only >= 0 && id != e.only {
		return
	}
	ev := mk()
	ev["label"] = label
	ev["fam"] = e.fam
	if ev["ev"] == "fault" {
		ev["v"] = proj.M{"label": label}
		if len(e.samples) < 3 && ev["kind"] != "" {
			e.samples = append(e.samples, proj.M{"label": label, "writes": ev["writes"], "returned_error": ev["ret"]})
		}
	}
	vj, _ := json.Marshal(ev["v"])
	if ev["ev"] == "stream" {
		ev2 := proj.M{"values": len(ev["ends"].([]int)), "octets": len(ev["out"].([]int)), "api": ev["api"]}
		if len(e.samples) < 3 {
			e.samples = append(e.samples, proj.M{"label": label, "stream": ev2})
		}
	}
	h := sha1.Sum(vj)
	if len(vj) > 40 { // non-trivial: more than a bare nil / single small leaf
		e.distinct[h] = true
	}
	if len(e.samples) < 3 && len(vj) < 600 {
		e.samples = append(e.samples, proj.M{"label": label, "value": json.RawMessage(vj), "out": ev["out"]})
	}
	ev["id"] = id
	e.w.writeID(ev, id)
}

func (e *emitter) finish(out string, rule string) {
	s := proj.M{"evaluations": e.n, "traces": e.n, "distinct_nontrivial": len(e.distinct), "samples": e.samples, "family_rule": rule}
	b, _ := json.Marshal(s)
	os.WriteFile(out+"/summary.json", b, 0o644)
}

var zooTypes = []interface{}{
	zoo.Scalars{}, zoo.Small{}, zoo.Slices{}, zoo.Conts{}, zoo.Derived{}, zoo.CustomHolder{}, zoo.Custom{},
	zoo.NamedMapHolder{}, zoo.Node{}, zoo.FNode{}, zoo.Ping{}, zoo.Pong{}, zoo.Wide{}, zoo.Five{},
	zoo.HI{}, zoo.HI8{}, zoo.HI16{}, zoo.HI32{}, zoo.HI64{}, zoo.HU{}, zoo.HU8{}, zoo.HU16{}, zoo.HU32{}, zoo.HU64{},
	zoo.HF32{}, zoo.HF64{}, zoo.HStr{}, zoo.HBin{}, zoo.HTime{}, zoo.HBool{}, zoo.HPTime{}, zoo.Named{}, zoo.Outer{}, zoo.Interior{}, zoo.Uni{}, zoo.HoldIList{}, zoo.MapThenLists{}, zoo.EmbPtrNamed{}, zoo.EmbValNamed{},
}

var topTypes = []interface{}{
	[]int32{}, []int{}, []int64{}, []string{}, []float64{}, []bool{}, []zoo.Small{}, []*zoo.Small{}, [][]int32{},
	[]interface{}{}, map[string]int32{}, map[int32]string{}, map[string]zoo.Small{}, map[string]*zoo.Small{},
	[]time.Time{}, []uint16{}, []float32{}, map[string][]int32{}, []map[string]int32{}, zoo.NamedMap{},
	int32(0), int64(0), int(0), int8(0), int16(0), uint8(0), uint16(0), uint32(0), uint(0), uint64(0),
	float32(0), float64(0), "", []byte{}, true, time.Time{},
	zoo.Color(0), zoo.Label(""), zoo.Ratio(0), zoo.Flag(false), zoo.Big(0), []zoo.Color{}, map[zoo.Label]zoo.Big{},
}

var directedLens = []int{0, 1, 2, 7, 8, 9, 15, 16, 17, 31, 32, 33, 255, 256, 257, 263, 264, 511, 512, 600}

func wideElems(k int) []interface{} {
	all := []interface{}{zoo.W00{V: 0}, &zoo.W01{V: 1}, zoo.W02{V: 2}, zoo.W03{V: 3}, &zoo.W04{V: 4}, zoo.W05{V: 5},
		zoo.W06{V: 6}, zoo.W07{V: 7}, zoo.W08{V: 8}, zoo.W09{V: 9}, zoo.W10{V: 10}, zoo.W11{V: 11}, zoo.W12{V: 12},
		zoo.W13{V: 13}, zoo.W14{V: 14}, &zoo.W15{V: 15}, zoo.W16{V: 16}, zoo.W17{V: 17}, zoo.W18{V: 18}, zoo.W19{V: 19}}
	return all[:k]
}

func lenValue(t reflect.Type, g *gen.G, n int) interface{} {
	switch t.Kind() {
	case reflect.Slice:
		s := reflect.MakeSlice(t, n, n)
		sub := *g
		sub.MaxLen = 2
		for i := 0; i < n; i++ {
			s.Index(i).Set(sub.Value(t.Elem(), 2))
		}
		return s.Interface()
	case reflect.Map:
		m := reflect.MakeMapWithSize(t, n)
		for i := 0; m.Len() < n && i < 100*n+100; i++ {
			var k reflect.Value
			if t.Key().Kind() == reflect.String {
				k = reflect.ValueOf(fmt.Sprintf("k%d", i)).Convert(t.Key())
			} else {
				k = reflect.ValueOf(i).Convert(t.Key())
			}
			m.SetMapIndex(k, g.Value(t.Elem(), 2))
		}
		return m.Interface()
	}
	return nil
}

func famC01(e *emitter, g *gen.G, thorough bool) {
	nrand := 4
	lens := directedLens
	if thorough {
		nrand = 90
		lens = nil
		for i := 0; i <= 600; i++ { // every length up to 320 and around the second wrap point, every 4th beyond
			if i <= 320 || i%4 == 0 || (i >= 508 && i <= 520) || i >= 596 {
				lens = append(lens, i)
			}
		}
	}
	for _, z := range zooTypes {
		t := reflect.TypeOf(z)
		e.emit("zero/"+t.String(), z)
		e.emit("zeroptr/"+t.String(), reflect.New(t).Interface())
		for i := 0; i < nrand; i++ {
			g.Reset()
			g.MaxLen = 1 + i%5
			v := g.Value(t, 0)
			if i%2 == 0 {
				e.emit(fmt.Sprintf("rand%d/%s", i, t), v.Interface())
			} else {
				p := reflect.New(t)
				p.Elem().Set(v)
				e.emit(fmt.Sprintf("randptr%d/%s", i, t), p.Interface())
			}
		}
	}
	for _, z := range topTypes {
		t := reflect.TypeOf(z)
		for i := 0; i < nrand; i++ {
			g.Reset()
			g.MaxLen = 1 + i%6
			g.NilP = 0.1
			e.emit(fmt.Sprintf("top%d/%s", i, t), g.Value(t, 0).Interface())
		}
	}
	g.NilP = 0.2
	for _, z := range []interface{}{[]int32{}, []string{}, []zoo.Small{}, []*zoo.Small{}, [][]int32{}, []interface{}{},
		map[string]int32{}, map[int32]string{}, []int64{}, []float64{}} {
		t := reflect.TypeOf(z)
		for _, n := range lens {
			if t.Kind() == reflect.Map && n > 300 && !thorough {
				continue
			}
			g.Reset()
			if t.Elem().Kind() == reflect.Interface {
				s := make([]interface{}, n)
				for i := range s {
					s[i] = int32(i)
				}
				e.emit(fmt.Sprintf("len%d/%s", n, t), s)
				continue
			}
			e.emit(fmt.Sprintf("len%d/%s", n, t), lenValue(t, g, n))
		}
	}
	// container lengths inside struct fields
	for _, n := range lens {
		g.Reset()
		c := zoo.Conts{}
		c.Vals = lenValue(reflect.TypeOf(c.Vals), g, n%40).([]zoo.Item)
		c.LL = lenValue(reflect.TypeOf(c.LL), g, n%50).([][]int32)
		c.MS = lenValue(reflect.TypeOf(c.MS), g, n%30).(map[string]string)
		s := zoo.Slices{}
		s.I32s = lenValue(reflect.TypeOf(s.I32s), g, n).([]int32)
		s.Ss = lenValue(reflect.TypeOf(s.Ss), g, n%300).([]string)
		e.emit(fmt.Sprintf("fieldlen%d/Conts", n), c)
		e.emit(fmt.Sprintf("fieldlen%d/Slices", n), &s)
	}
	// messages longer than the 4096-octet read buffer of Decode: every payload straddles a refill somewhere
	for _, n := range []int{460, 520, 1200} {
		g.Reset()
		ls := make([]int64, n)
		fs := make([]float64, n)
		ts := make([]time.Time, n)
		for i := range ls {
			ls[i] = int64(g.R.Uint64()) | 1<<40
			fs[i] = g.R.NormFloat64() * 1e10
			ts[i] = time.Unix(int64(g.R.Intn(2000000000)), int64(1+g.R.Intn(998))*1000000)
		}
		e.emit(fmt.Sprintf("long%d/[]int64", n), ls)
		e.emit(fmt.Sprintf("long%d/[]float64", n), fs)
		e.emit(fmt.Sprintf("long%d/[]time.Time", n), ts)
		e.emit(fmt.Sprintf("long%d/Slices", n), &zoo.Slices{I64s: ls, F64s: fs, Ts: ts})
		for _, pad := range []int{4040 + n%60, 4070, 4085, 4090, 4095} {
			e.emit(fmt.Sprintf("pad%d/Scalars", pad), zoo.Scalars{S: g.String(pad, 0), I64: ls[0], F64: fs[0], T: ts[0], U64: uint64(ls[1])})
		}
	}
	// the same map / list / object twice in the interface slots of a list longer than the decoder's
	// preallocation (1024), of a map field and of a map behind an interface
	{
		m1 := map[string]int32{"a": 1}
		l1 := []int32{4, 5}
		o1 := &zoo.Small{Name: "o"}
		big := make([]interface{}, 1100)
		for i := range big {
			big[i] = int32(i)
		}
		big[0], big[1], big[2], big[1050], big[1060], big[1070] = m1, l1, o1, m1, l1, o1
		e.emit("refs/biglist", big)
		e.emit("refs/mapfield", zoo.BadInMap{M: map[string]interface{}{"x": m1, "y": m1, "l": l1, "l2": l1, "o": o1, "o2": o1}})
		e.emit("refs/listfield", zoo.BadInList{L: []interface{}{m1, m1, l1, l1, o1, o1}})
	}
	// a declared map type in front of repeated list types; embedding a custom-named base; whole-numbered doubles beyond 2^24
	e.emit("directed/mapthenlists", zoo.MapThenLists{M: zoo.NamedMap{"k": 1}, L1: []int32{1}, L2: []int32{2}, L3: []string{"a"}, L4: []string{"b"}})
	e.emit("directed/mapthenlists2", []interface{}{zoo.NamedMap{"k": 1}, []int32{1}, zoo.NamedMap{"j": 2}, []int32{2}, []string{"x"}, []int32{3}})
	e.emit("directed/embptrnamed", &zoo.EmbPtrNamed{PtrNamedBase: &zoo.PtrNamedBase{ID: 4}, X: 5})
	e.emit("directed/embptrnamed2", []interface{}{&zoo.PtrNamedBase{ID: 1}, zoo.EmbPtrNamed{PtrNamedBase: &zoo.PtrNamedBase{ID: 2}, X: 3}, zoo.EmbValNamed{PtrNamedBase: zoo.PtrNamedBase{ID: 6}, Y: "y"}})
	for i, f := range []float64{16777216, 16777217, -16777217, 123456789, 2147483647, -2147483648, 4294967297, 33554433} {
		e.emit(fmt.Sprintf("directed/bigwhole%d", i), zoo.Scalars{F64: f, F32: float32(f)})
		e.emit(fmt.Sprintf("directed/bigwholetop%d", i), f)
		e.emit(fmt.Sprintf("directed/bigwholelist%d", i), []float64{f, 1, f})
	}
	// code points that code tends to treat specially, in every string position
	for i, r := range []rune{0xfffd, 0xfeff, 0, 0x7f, 0x85, 0xd7ff, 0xe000, 0xfffe, 0xffff, 0x10ffff} {
		c := string(r)
		e.emit(fmt.Sprintf("special%d/top", i), c)
		e.emit(fmt.Sprintf("special%d/Scalars", i), zoo.Scalars{S: "a" + c + "b"})
		e.emit(fmt.Sprintf("special%d/[]string", i), []string{c, "", c + c})
		e.emit(fmt.Sprintf("special%d/map", i), map[string]string{c: c, "k": "v" + c})
		e.emit(fmt.Sprintf("special%d/Conts", i), zoo.Conts{MS: map[string]string{c: c}, Vals: []zoo.Item{{K: c, V: 1}}})
	}
	// 1..20 distinct classes per message; k-th class inside a list
	for k := 1; k <= 20; k++ {
		e.emit(fmt.Sprintf("classes%d/[]interface{}", k), wideElems(k))
		el := wideElems(k)
		e.emit(fmt.Sprintf("classes%d-twice", k), append(append([]interface{}{}, el...), el...))
	}
	g.Reset()
	e.emit("wide", g.Value(reflect.TypeOf(zoo.Wide{}), 0).Interface())
	// class-definition indexes beyond one octet: 255, 256, 257, 272, 300 classes in one message
	for _, k := range []int{255, 256, 257, 272, 300} {
		m := zoo.ManyClasses(k)
		e.emit(fmt.Sprintf("manyclasses%d", k), append(append([]interface{}{}, m...), m[k-1], m[0]))
	}
}

func famC07(e *emitter, g *gen.G, thorough bool) {
	vals := []int64{}
	for _, b := range gen.IntEdges {
		for d := int64(-3); d <= 3; d++ {
			vals = append(vals, b+d)
		}
	}
	for k := 0; k < 64; k++ {
		p := int64(1) << uint(k)
		vals = append(vals, p-1, p, p+1, -p-1, -p, -p+1)
	}
	nr := 300
	if thorough {
		nr = 20000
	}
	for i := 0; i < nr; i++ {
		vals = append(vals, g.Int64())
	}
	for i, v := range vals {
		// every Go integer kind: on its own and in a struct field of that kind
		e.emit(fmt.Sprintf("int8/%d", i), int8(v))
		e.emit(fmt.Sprintf("int16/%d", i), int16(v))
		e.emit(fmt.Sprintf("int32/%d", i), int32(v))
		e.emit(fmt.Sprintf("int/%d", i), int(v))
		e.emit(fmt.Sprintf("int64/%d", i), v)
		e.emit(fmt.Sprintf("uint8/%d", i), uint8(v))
		e.emit(fmt.Sprintf("uint16/%d", i), uint16(v))
		e.emit(fmt.Sprintf("uint32/%d", i), uint32(v))
		e.emit(fmt.Sprintf("uint/%d", i), uint(v))
		e.emit(fmt.Sprintf("uint64/%d", i), uint64(v))
		e.emit(fmt.Sprintf("fields/%d", i), zoo.Scalars{I: int(v), I8: int8(v), I16: int16(v), I32: int32(v), I64: v,
			U: uint(v), U8: uint8(v), U16: uint16(v), U32: uint32(v), U64: uint64(v)})
		// list elements, map keys and values
		e.emit(fmt.Sprintf("lists/%d", i), &zoo.Slices{Is: []int{int(v), 1}, I8s: []int8{int8(v)}, I16s: []int16{3, int16(v)},
			I32s: []int32{int32(v)}, I64s: []int64{v, v}, Us: []uint{uint(v)}, U16s: []uint16{uint16(v)},
			U32s: []uint32{uint32(v)}, U64s: []uint64{uint64(v)}})
		e.emit(fmt.Sprintf("toplist32/%d", i), []int32{int32(v), int32(v >> 7)})
		e.emit(fmt.Sprintf("toplist64/%d", i), []int64{v, v >> 9})
		e.emit(fmt.Sprintf("iflist/%d", i), []interface{}{int32(v), v, int16(v), uint32(v)})
		e.emit(fmt.Sprintf("mapkv/%d", i), zoo.Conts{MI: map[int32]string{int32(v): "x"}, ML64: map[int64]int64{v: v, v >> 5: v >> 3}})
		e.emit(fmt.Sprintf("topmap/%d", i), map[int32]int64{int32(v): v})
		if i%3 == 0 { // declared integer types in every position
			e.emit(fmt.Sprintf("named/%d", i), &zoo.Named{C: zoo.Color(v), B: zoo.Big(v), T: zoo.Tiny(v), Cs: []zoo.Color{zoo.Color(v), 1},
				M: map[zoo.Label]zoo.Color{"k": zoo.Color(v)}})
			e.emit(fmt.Sprintf("namedtop/%d", i), zoo.Big(v))
			e.emit(fmt.Sprintf("namedlist/%d", i), []zoo.Big{zoo.Big(v), zoo.Big(v >> 3)})
			e.emit(fmt.Sprintf("namedmap/%d", i), map[zoo.Big]zoo.Color{zoo.Big(v): zoo.Color(v)})
		}
		e.emit(fmt.Sprintf("umap/%d", i), &zoo.Conts{MU64: map[uint64]uint64{uint64(v): uint64(v), uint64(v) >> 3: uint64(v) + 1},
			MI8: map[int8]uint16{int8(v): uint16(v)}})
		e.emit(fmt.Sprintf("topumap/%d", i), map[uint64]uint32{uint64(v): uint32(v)})
		e.emit(fmt.Sprintf("nested64/%d", i), [][]int64{{v, v + 1}, {v >> 1}})
		e.emit(fmt.Sprintf("nestedu/%d", i), map[string][]uint64{"k": {uint64(v), uint64(v) - 1}})
	}
}

func famC08(e *emitter, g *gen.G, thorough bool) {
	vals := []float64{}
	step := 7
	if thorough {
		step = 1
	}
	for i := -70000; i <= 70000; i += step {
		vals = append(vals, float64(i))
	}
	for _, b := range []int{-32769, -32768, -32767, -129, -128, -127, -2, -1, 0, 1, 2, 126, 127, 128, 129, 32766, 32767, 32768, 32769, 65535, 65536, 70000} {
		vals = append(vals, float64(b), float64(b)+0.5, float64(b)-0.25)
	}
	for k := -1074; k <= 1023; k++ {
		p := math.Ldexp(1, k)
		vals = append(vals, p, -p, math.Nextafter(p, 0), math.Nextafter(p, math.Inf(1)), 3*p)
	}
	vals = append(vals, gen.FloatEdges...)
	vals = append(vals, math.NaN(), math.Float64frombits(0x7ff0000000000001), math.Float64frombits(0xfff8000000000000))
	nr := 1500
	if thorough {
		nr = 60000
	}
	for i := 0; i < nr; i++ {
		vals = append(vals, g.Float64())
	}
	for i, v := range []float64{math.NaN(), math.Inf(1), math.Inf(-1), math.Copysign(0, -1), math.Float64frombits(0x7ff0000000000001), math.SmallestNonzeroFloat64} {
		e.emit(fmt.Sprintf("mapkey/special%d", i), map[float64]int32{v: 1, 2.5: 2})
		e.emit(fmt.Sprintf("mapkey32/special%d", i), map[float32]string{float32(v): "v"})
		e.emit(fmt.Sprintf("mapkeyfield/special%d", i), zoo.Conts{MFK: map[float64]string{v: "x"}})
	}
	for i, v := range vals {
		e.emit(fmt.Sprintf("f64/%d", i), v)
		if i%4 == 0 || thorough {
			f32 := float32(v)
			e.emit(fmt.Sprintf("f32/%d", i), f32)
			e.emit(fmt.Sprintf("fields/%d", i), zoo.Scalars{F32: f32, F64: v})
			e.emit(fmt.Sprintf("lists/%d", i), &zoo.Slices{F32s: []float32{f32, 1}, F64s: []float64{v}})
			e.emit(fmt.Sprintf("mapv/%d", i), zoo.Conts{MF: map[string]float64{"a": v}})
			e.emit(fmt.Sprintf("toplist/%d", i), []float64{v, -v})
		}
		if i%8 == 0 { // as a map key (a NaN key cannot be looked up again, a -0 key is the +0 key)
			e.emit(fmt.Sprintf("mapkey/%d", i), map[float64]int32{v: 1, 2.5: 2})
			e.emit(fmt.Sprintf("mapkey32/%d", i), map[float32]string{float32(v): "v"})
		}
	}
}

func famC09(e *emitter, g *gen.G, thorough bool) {
	lens := []int{0, 1, 2, 15, 16, 17, 31, 32, 33, 255, 256, 1023, 1024, 1025, 2047, 2048, 2049, 2079, 2080, 4095, 4096, 4097, 6143, 6144, 6145, 6184}
	blens := []int{0, 1, 15, 16, 17, 255, 256, 1023, 1024, 1025, 4095, 4096, 4097, 8191, 8192, 8193, 12288, 12289, 12328}
	if thorough {
		// every length up to 300 and within 48 of every form / chunk boundary, every 5th length elsewhere
		near := func(i int, bs []int) bool {
			for _, b := range bs {
				if i >= b-48 && i <= b+48 {
					return true
				}
			}
			return false
		}
		lens, blens = nil, nil
		for i := 0; i <= 3*2048+40; i++ {
			if i <= 300 || i%5 == 0 || near(i, []int{1023, 2048, 4096, 6144}) {
				lens = append(lens, i)
			}
		}
		for i := 0; i <= 3*4096+40; i++ {
			if i <= 300 || i%7 == 0 || near(i, []int{1023, 4096, 8192, 12288}) {
				blens = append(blens, i)
			}
		}
	}
	for _, n := range lens {
		for class := 0; class < 6; class++ {
			var s string
			if class < 5 {
				s = g.String(n, class)
			} else { // ASCII with one wide code point near each chunk boundary
				rs := []rune(g.String(n, 0))
				for _, bnd := range []int{2048, 4096, 6144} {
					off := bnd - 3 + g.R.Intn(7)
					if off >= 0 && off < n {
						rs[off] = g.Rune(1 + g.R.Intn(4))
					}
				}
				s = string(rs)
			}
			e.emit(fmt.Sprintf("str%d/c%d", n, class), s)
			if n <= 40 || class == 5 || (thorough && n%16 == 0) {
				e.emit(fmt.Sprintf("strfield%d/c%d", n, class), zoo.HStr{V: s})
				e.emit(fmt.Sprintf("strlist%d/c%d", n, class), []string{"a", s, "", s, "b"})
				e.emit(fmt.Sprintf("strmap%d/c%d", n, class), map[string]string{s: s, "k": s, "": "e"})
				e.emit(fmt.Sprintf("strslice%d/c%d", n, class), &zoo.Slices{Ss: []string{s, "", "z"}})
				e.emit(fmt.Sprintf("strmapf%d/c%d", n, class), zoo.Conts{MS: map[string]string{s: "v", "k2": s, "": s}})
			}
		}
	}
	for _, n := range blens {
		b := make([]byte, n)
		g.R.Read(b)
		e.emit(fmt.Sprintf("bin%d", n), b)
		if n <= 40 || n%1024 < 2 {
			e.emit(fmt.Sprintf("binfield%d", n), zoo.HBin{V: b})
			e.emit(fmt.Sprintf("binlist%d", n), []interface{}{b, []byte{}, b})
			e.emit(fmt.Sprintf("binmap%d", n), map[string][]byte{"k": b, "e": {}})
		}
	}
	for i, cp := range []rune{0x7f, 0x80, 0x7ff, 0x800, 0xd7ff, 0xe000, 0xfffc, 0xfffd, 0xfffe, 0xffff, 0x10000, 0x10ffff} {
		sp := string([]rune{'a', cp, 'b', cp, cp})
		e.emit(fmt.Sprintf("cp%d/top", i), sp)
		e.emit(fmt.Sprintf("cp%d/field", i), zoo.HStr{V: sp})
		e.emit(fmt.Sprintf("cp%d/list", i), []string{sp, "x", string(cp)})
		e.emit(fmt.Sprintf("cp%d/map", i), map[string]string{sp: string(cp), "k": sp})
	}
	for pad := 4078; pad <= 4098; pad++ {
		ps := g.String(pad, 0)
		e.emit(fmt.Sprintf("straddle%d/str", pad), []interface{}{ps, g.String(1800, 0), "tail"})
		e.emit(fmt.Sprintf("straddle%d/bin", pad), []interface{}{ps, make([]byte, 1200), []byte{1, 2}})
		e.emit(fmt.Sprintf("straddle%d/field", pad), &zoo.Scalars{S: ps, Bin: make([]byte, 1200)})
	}
	for _, big := range []int{4097, 5000, 9000, 2049, 2100} {
		bb := make([]byte, big)
		g.R.Read(bb)
		s1, s2 := []byte{1, 2, 3, 4, 5, 6, 7, 8}, []byte{9, 10, 11, 12, 13}
		e.emit(fmt.Sprintf("binseq%d/list", big), []interface{}{bb, s1, s2, s1})
		e.emit(fmt.Sprintf("binseq%d/list2", big), []interface{}{s1, bb, s2, s1, bb[:10]})
		e.emit(fmt.Sprintf("binseq%d/typed", big), [][]byte{bb, s1, s2})
		e.emit(fmt.Sprintf("binseq%d/map", big), map[string][]byte{"a": bb, "b": s1, "c": s2})
		ls := g.String(big, -1)
		e.emit(fmt.Sprintf("strseq%d/list", big), []interface{}{ls, "short-1", "other-22", string([]rune(ls)[:5])})
		e.emit(fmt.Sprintf("strseq%d/typed", big), []string{"a", ls, "bcd", "efgh"})
	}
	nbig := 1
	if thorough {
		nbig = 10
	}
	for i := 0; i < nbig; i++ {
		n := 20000 + g.R.Intn(80000)
		if thorough {
			n = 100000 + g.R.Intn(160000)
		}
		e.emit(fmt.Sprintf("bigstr%d", i), g.String(n, -1))
		b := make([]byte, 4*n)
		g.R.Read(b)
		e.emit(fmt.Sprintf("bigbin%d", i), b)
	}
}

func famC10(e *emitter, g *gen.G, thorough bool) {
	ts := []time.Time{{}}
	const minSec, maxSec = -62135596800, 253402300799
	for _, s := range []int64{0, math.MaxInt32, math.MinInt32, minSec, maxSec, -9223372037, 9223372036, -9223372036, 9223372037,
		-9214646400, -9183110400, 9214646400, 9246182400, 1500000000, 2208988800, -2208988800, 4102444800} {
		for _, ds := range []int64{-1, 0, 1} {
			for _, ns := range []int64{0, 1000000, 999000000, 500000000, 1, 999999999, 1500, 123456789} {
				sec := s + ds
				if sec < minSec || sec > maxSec {
					continue
				}
				ts = append(ts, time.Unix(sec, ns))
			}
		}
	}
	nr := 1500
	if thorough {
		nr = 200000
	}
	for i := 0; i < nr; i++ {
		ts = append(ts, g.Time())
	}
	for i, t := range ts {
		e.emit(fmt.Sprintf("top/%d", i), t)
		e.emit(fmt.Sprintf("field/%d", i), zoo.HTime{V: t})
		if i%3 == 0 {
			e.emit(fmt.Sprintf("list/%d", i), []time.Time{t, t.Add(time.Hour)})
			e.emit(fmt.Sprintf("scalars/%d", i), &zoo.Scalars{T: t, S: "s"})
			e.emit(fmt.Sprintf("slicefield/%d", i), zoo.Slices{Ts: []time.Time{t}})
			e.emit(fmt.Sprintf("slicezero/%d", i), zoo.Slices{Ts: []time.Time{t, {}, t.Add(time.Minute), {}}})
			e.emitStructsOnly(fmt.Sprintf("slicezero/%d/untyped", i), zoo.Slices{Ts: []time.Time{t, {}, t.Add(time.Minute), {}}})
			t1, t2 := t, t.Add(time.Second)
			e.emit(fmt.Sprintf("ptrfield/%d", i), &zoo.HPTime{P: &t1, Q: &t2})
			e.emit(fmt.Sprintf("ptrshared/%d", i), zoo.HPTime{P: &t1, Q: &t1})
		}
	}
}

// ---- C04: pointer graphs -------------------------------------------------

// assign decodes idx as a number in base (k+1) giving each of the slots a
// target in {nil, n0..n(k-1)}.
func digits(idx, base, n int) []int {
	d := make([]int, n)
	for i := range d {
		d[i] = idx % base
		idx /= base
	}
	return d
}

func pow(b, n int) int {
	r := 1
	for i := 0; i < n; i++ {
		r *= b
	}
	return r
}

func famC04(e *emitter, g *gen.G, thorough bool) {
	maxK := 3
	if thorough {
		maxK = 4
	}
	// (i) every edge assignment over K nodes with two pointer fields each
	for k := 1; k <= maxK; k++ {
		total := pow(k+1, 2*k)
		for idx := 0; idx < total; idx++ {
			ns := make([]*zoo.Node, k)
			for i := range ns {
				ns[i] = &zoo.Node{Name: fmt.Sprintf("n%d", i)}
			}
			d := digits(idx, k+1, 2*k)
			for i := range ns {
				if d[2*i] > 0 {
					ns[i].A = ns[d[2*i]-1]
				}
				if d[2*i+1] > 0 {
					ns[i].B = ns[d[2*i+1]-1]
				}
			}
			e.emit(fmt.Sprintf("ab%d/%d", k, idx), ns[0])
			if k <= 2 || idx%7 == 0 { // the root handed over as a pointer to the pointer
				e.emitBehind(fmt.Sprintf("ab%d/%d/pp", k, idx), ns[0])
			}
		}
	}
	// (ii) every edge assignment over 2 nodes x every filler in front of the pointers
	fillers := []func(n *zoo.FNode){
		func(n *zoo.FNode) {},
		func(n *zoo.FNode) { n.FT = time.Unix(1500000000, 0) },
		func(n *zoo.FNode) { n.FT = time.Unix(1500000000, 5000000) },
		func(n *zoo.FNode) { n.FM = map[string]int32{} },
		func(n *zoo.FNode) { n.FM = map[string]int32{"a": 1} },
		func(n *zoo.FNode) { n.FS = "filler" },
		func(n *zoo.FNode) { n.FB = []byte{1, 2, 3} },
		func(n *zoo.FNode) { n.FL = []int32{} },
		func(n *zoo.FNode) { n.FL = []int32{7, 8} },
		func(n *zoo.FNode) { n.FP = &zoo.Small{Name: "p"} },
		func(n *zoo.FNode) { t := time.Unix(1500000001, 0); n.PT = &t },
		func(n *zoo.FNode) { t := time.Unix(1500000002, 3000000); n.PT = &t; n.FT = t },
		func(n *zoo.FNode) {
			n.FT = time.Unix(1, 0)
			n.FM = map[string]int32{}
			n.FL = []int32{}
			n.FB = []byte{}
		},
		func(n *zoo.FNode) {
			n.FT = time.Unix(2, 500000000)
			n.FM = map[string]int32{"z": 2}
			n.FL = []int32{1}
			n.FS = "s"
			n.FB = []byte{9}
			n.FP = &zoo.Small{N: 4}
		},
	}
	maxKF := 2
	if thorough {
		maxKF = 3
	}
	for k := 1; k <= maxKF; k++ {
		total := pow(k+1, 2*k)
		for idx := 0; idx < total; idx++ {
			for fi, fill := range fillers {
				ns := make([]*zoo.FNode, k)
				for i := range ns {
					ns[i] = &zoo.FNode{}
					fill(ns[i])
				}
				d := digits(idx, k+1, 2*k)
				for i := range ns {
					if d[2*i] > 0 {
						ns[i].A = ns[d[2*i]-1]
					}
					if d[2*i+1] > 0 {
						ns[i].B = ns[d[2*i+1]-1]
					}
				}
				e.emit(fmt.Sprintf("fill%d/%d/f%d", k, idx, fi), ns[0])
			}
		}
	}
	// (iii) slices and maps of pointers: every choice of <=2 elements / <=1 entry over 2 nodes,
	// the same slice / map shared by both nodes, and behind pointers (PL, PM)
	for idx := 0; idx < 13*13; idx++ {
		ns := []*zoo.Node{{Name: "n0"}, {Name: "n1"}}
		pick := func(c int) []*zoo.Node {
			tgt := func(x int) *zoo.Node {
				if x == 0 {
					return nil
				}
				return ns[x-1]
			}
			switch {
			case c == 0:
				return nil
			case c <= 3:
				return []*zoo.Node{tgt(c - 1)}
			default:
				c -= 4
				return []*zoo.Node{tgt(c / 3), tgt(c % 3)}
			}
		}
		ns[0].L = pick(idx % 13)
		ns[1].L = pick(idx / 13)
		ns[0].A = ns[1]
		e.emit(fmt.Sprintf("lists/%d", idx), ns[0])
		if idx%3 == 0 {
			e.emitStructsOnly(fmt.Sprintf("lists/%d/untyped", idx), ns[0])
		}
		ns2 := []*zoo.Node{{Name: "m0"}, {Name: "m1"}}
		mk := func(c int) map[string]*zoo.Node {
			switch c % 4 {
			case 0:
				return nil
			case 1:
				return map[string]*zoo.Node{"k": nil}
			case 2:
				return map[string]*zoo.Node{"k": ns2[0]}
			default:
				return map[string]*zoo.Node{"k": ns2[1]}
			}
		}
		ns2[0].M = mk(idx)
		ns2[1].M = mk(idx / 4)
		ns2[0].B = ns2[1]
		if idx%3 == 0 {
			ns2[1].M = ns2[0].M // the same map in both
		}
		e.emit(fmt.Sprintf("maps/%d", idx), ns2[0])
	}
	// a declared list type with interface elements: objects in it are pointers, shared ones stay shared
	{
		p1, p2 := &zoo.Small{Name: "p1"}, &zoo.Small{Name: "p2"}
		e.emit("ilist/top", zoo.IList{p1, p1, p2, int32(3), "s"})
		e.emit("ilist/field", &zoo.HoldIList{L: zoo.IList{p1, p2, p1}, P: p1})
		e.emit("ilist/nested", []interface{}{zoo.IList{p1}, p1, zoo.IList{p1, zoo.IList{p2}}})
	}
	// the ROOT is a list that one of its elements holds (below and beyond the decoder's preallocation of 1024)
	for _, n := range []int{3, 1024, 1025, 1100} {
		root := make([]*zoo.Node, n)
		for i := range root {
			root[i] = &zoo.Node{Name: fmt.Sprintf("r%d", i)}
		}
		root[1].L = root
		root[n-1].A = root[0]
		e.emit(fmt.Sprintf("rootlist/%d", n), root)
	}
	// a cycle that runs THROUGH a list: an element of the list holds that very list, so the back-reference
	// is read while the list is still being read (with and without names for the list types)
	for idx := 0; idx < 12*3; idx++ {
		ns := []*zoo.Node{{Name: "n0"}, {Name: "n1"}, {Name: "n2"}}
		var s []*zoo.Node
		if c := idx % 12; c < 3 {
			s = []*zoo.Node{ns[c]}
		} else {
			s = []*zoo.Node{ns[(c-3)/3], ns[(c-3)%3]}
		}
		ns[0].L = s
		switch idx / 12 {
		case 0:
			ns[1].L = s
		case 1:
			ns[2].L = s
		default:
			ns[1].L, ns[2].L = s, s
			ns[2].A = ns[0]
		}
		e.emit(fmt.Sprintf("listcycle/%d", idx), ns[0])
		e.emitStructsOnly(fmt.Sprintf("listcycle/%d/untyped", idx), ns[0])
		pl := zoo.Nodes(s)
		ns[0].L, ns[0].PL, ns[1].PL = nil, &pl, &pl
		e.emit(fmt.Sprintf("listcycle/%d/behindptr", idx), ns[0])
		m := map[string]*zoo.Node{"x": s[0], "y": s[len(s)-1]}
		ms := []*zoo.Node{{Name: "m0"}, {Name: "m1"}}
		m["m1"] = ms[1]
		ms[0].M, ms[1].M = m, m
		e.emit(fmt.Sprintf("mapcycle/%d", idx), ms[0])
	}
	for v := 0; v < 16; v++ {
		a, b, c := &zoo.Node{Name: "a"}, &zoo.Node{Name: "b"}, &zoo.Node{Name: "c"}
		shared := []*zoo.Node{b, c, a}
		pl := zoo.Nodes{c, b}
		pm := map[string]*zoo.Node{"x": a, "y": b}
		a.L = shared
		if v&1 != 0 {
			b.L = shared
		}
		a.PL = &pl
		if v&2 != 0 {
			c.PL = &pl
		}
		a.PM = &pm
		if v&4 != 0 {
			b.PM = &pm
		}
		a.M = map[string]*zoo.Node{"self": a, "b": b}
		if v&8 != 0 {
			c.M = a.M
		}
		a.A, a.B = b, c
		e.emit(fmt.Sprintf("shared/%d", v), a)
		e.emitStructsOnly(fmt.Sprintf("shared/%d/untyped", v), a)
		e.emitBehind(fmt.Sprintf("shared/%d/pp", v), a)
	}
	// (iii'') one address, several values: a struct and its first field, slices of different length
	// over one array, each followed by genuine back-references
	for idx := 0; idx < 6*6*3; idx++ {
		o := &zoo.Outer{In: zoo.Small{Name: "in", N: 5}, X: 7}
		arr := []int32{1, 2, 3, 4}
		sm := []*zoo.Small{{Name: "s0"}, {Name: "s1"}, {Name: "s2"}}
		cut := func(c int) []int32 {
			return [][]int32{nil, arr[:4], arr[:3], arr[:2], arr[1:3], arr[:4:4]}[c]
		}
		cutp := func(c int) []*zoo.Small {
			return [][]*zoo.Small{nil, sm[:3], sm[:2], sm[:1], sm[1:], sm[:3:3]}[c]
		}
		it := &zoo.Interior{C: cut(idx % 6), D: cut(idx / 6 % 6), E: cutp(idx / 6 % 6), F: cutp(idx % 6)}
		switch idx / 36 {
		case 0:
			it.A, it.B = o, &o.In
		case 1:
			it.A, it.B = o, &zoo.Small{Name: "in", N: 5}
		case 2:
			it.B = &o.In
		}
		it.G, it.H, it.I = it.A, it.B, it.C
		e.emit(fmt.Sprintf("interior/%d", idx), it)
		if idx%9 == 0 {
			e.emit(fmt.Sprintf("interiorlist/%d", idx), []interface{}{o, &o.In, cut(idx % 6), cut(idx / 6 % 6), o, &o.In, cut(idx % 6)})
		}
	}
	// (iii') a chain whose last node points back at node k: every ordinal 0..69, and around the 2-octet int boundary
	for k := 0; k < 70; k++ {
		ns := make([]*zoo.Node, 72)
		for i := range ns {
			ns[i] = &zoo.Node{Name: "c"}
			if i > 0 {
				ns[i-1].A = ns[i]
			}
		}
		ns[71].B = ns[k]
		e.emit(fmt.Sprintf("chain72/back%d", k), ns[0])
	}
	for _, k := range []int{2044, 2045, 2046, 2047, 2048} {
		// flat: a root holding 2100 nodes in a list; the last one points back at node k
		// (ordinals around the 2-octet int boundary without deep nesting)
		ns := make([]*zoo.Node, 2100)
		for i := range ns {
			ns[i] = &zoo.Node{}
		}
		ns[2099].B = ns[k]
		e.emit(fmt.Sprintf("flat2100/back%d", k), &zoo.Node{Name: "root", L: ns})
	}
	// (iv) seeded random graphs, up to ~200 nodes
	nr := 30
	if thorough {
		nr = 1500
	}
	for i := 0; i < nr; i++ {
		g.Reset()
		g.MaxDepth = 3 + i%6
		g.MaxLen = 1 + i%4
		g.Share = 0.4
		g.ShareC = 0.3
		g.NilP = 0.15
		var t reflect.Type
		switch i % 3 {
		case 0:
			t = reflect.TypeOf(zoo.Node{})
		case 1:
			t = reflect.TypeOf(zoo.FNode{})
		default:
			t = reflect.TypeOf(zoo.Ping{})
		}
		p := reflect.New(t)
		g.Fill(p.Elem(), 0)
		e.emit(fmt.Sprintf("rand/%d/%s", i, t), p.Interface())
	}
}

// ---- C06: streams ----------------------------------------------------------

func famC06(e *emitter, g *gen.G, thorough bool) {
	ns := 100
	if thorough {
		ns = 2500
	}
	structs := []reflect.Type{reflect.TypeOf(zoo.Small{}), reflect.TypeOf(zoo.Scalars{}), reflect.TypeOf(zoo.Node{}),
		reflect.TypeOf(zoo.Custom{}), reflect.TypeOf(zoo.Five{}), reflect.TypeOf(zoo.Derived{}), reflect.TypeOf(zoo.Ping{}),
		reflect.TypeOf(zoo.FNode{}), reflect.TypeOf(zoo.W02{}), reflect.TypeOf(zoo.Conts{})}
	for i := 0; i < ns; i++ {
		n := 1 + g.R.Intn(50)
		if i < 10 {
			n = i + 1
		}
		g.Reset()
		g.MaxLen = 3
		g.MaxDepth = 3
		vals := make([]interface{}, 0, n)
		var ptrs, conts []interface{}
		if i%10 == 3 { // more than 16 classes on one stream
			for _, w := range wideElems(20) {
				vals = append(vals, w)
			}
			vals = append(vals, wideElems(20)[16], wideElems(20)[17])
		}
		if i%10 == 4 { // strings / binaries of several chunks with further values behind them; U+FFFD as a character
			long := g.String(2049+g.R.Intn(4200), []int{0, -1, 2}[i/10%3])
			bin := make([]byte, 4097+g.R.Intn(9000))
			g.R.Read(bin)
			lr := []rune(long)
			vals = append(vals, "\ufffd", long, "next", int32(7), "a\ufffdb", bin, []byte{1}, string(lr[:2048]), "x", string(lr[:2049]), zoo.HStr{V: long}, "tail")
		}
		for j := 0; j < n; j++ {
			switch c := g.R.Intn(14); {
			case c == 0:
				vals = append(vals, int32(g.Int64()))
			case c == 1:
				vals = append(vals, g.Int64())
			case c == 2:
				vals = append(vals, g.Float64())
			case c == 3:
				vals = append(vals, g.String(g.R.Intn(12), -1))
			case c == 4:
				vals = append(vals, g.R.Intn(2) == 0)
			case c == 5:
				vals = append(vals, nil)
			case c == 6:
				b := make([]byte, g.R.Intn(20))
				g.R.Read(b)
				vals = append(vals, b)
			case (c == 7 || c == 8) && len(conts) > 0 && g.R.Intn(2) == 0: // the very slice / map sent earlier
				vals = append(vals, conts[g.R.Intn(len(conts))])
			case c == 7:
				l := g.Value(reflect.TypeOf([]int32{}), 0).Interface()
				vals = append(vals, l)
				if len(l.([]int32)) > 0 {
					conts = append(conts, l)
				}
			case c == 8:
				m := g.Value(reflect.TypeOf(map[string]int32{}), 0).Interface()
				vals = append(vals, m)
				if len(m.(map[string]int32)) > 0 {
					conts = append(conts, m)
				}
			case c == 9 && len(ptrs) > 0: // the very object sent earlier
				vals = append(vals, ptrs[g.R.Intn(len(ptrs))])
			case c == 10:
				vals = append(vals, g.Time())
			case c == 11:
				vals = append(vals, []interface{}{int32(j), "s", g.Float64()})
			default:
				t := structs[g.R.Intn(len(structs))]
				p := reflect.New(t)
				g.Fill(p.Elem(), 0)
				if g.R.Intn(3) == 0 {
					vals = append(vals, p.Elem().Interface()) // by value
				} else {
					vals = append(vals, p.Interface())
					ptrs = append(ptrs, p.Interface())
				}
			}
		}
		vs := vals
		gc := i%3 == 1 // a collection after every write: what the encoder remembers must stay alive
		e.emitEv(fmt.Sprintf("enc/%d/n%d", i, n), func() proj.M { return drv.Stream("enc", vs, gc) })
		e.emitEv(fmt.Sprintf("ser/%d/n%d", i, n), func() proj.M { return drv.Stream("ser", vs, gc) })
	}
}

// ---- C15: failing writer ---------------------------------------------------

func famC15(e *emitter, g *gen.G, thorough bool) {
	vals := []interface{}{nil, int32(5), "hello", []byte{1, 2, 3}, true, 1.5, time.Unix(1500000000, 0), (*zoo.Small)(nil),
		zoo.Small{Name: "a", N: 1}, &zoo.Small{Name: "b"}, []int32{1, 2, 3}, []string{"a", "", "b"}, []interface{}{int32(1), "x", nil},
		map[string]int32{"k": 1}, map[string]int32{}, zoo.NamedMap{"a": 1}, []zoo.Small{{Name: "x"}, {Name: "y"}},
		zoo.CustomHolder{Title: "t", Items: []zoo.Custom{{Key: "k", Val: "v"}}, One: zoo.Custom{Key: "o"}},
		wideElems(18), zoo.Scalars{S: "s", Bin: []byte{9}, T: time.Unix(5, 5000000)}, zoo.Conts{MS: map[string]string{"a": "b"}, LL: [][]int32{{1}, {}}},
	}
	n1 := &zoo.Node{Name: "n1"}
	n2 := &zoo.Node{Name: "n2", A: n1, B: n1, L: []*zoo.Node{n1, nil}, M: map[string]*zoo.Node{"k": n1}}
	n1.A = n2
	vals = append(vals, n2, make([]int32, 300), g.String(5000, -1), make([]byte, 9000))
	nr := 25
	if thorough {
		nr = 600
	}
	for i := 0; i < nr; i++ {
		g.Reset()
		g.MaxLen = 1 + i%3
		t := reflect.TypeOf(zooTypes[g.R.Intn(14)])
		p := reflect.New(t)
		g.Fill(p.Elem(), 0)
		vals = append(vals, p.Interface())
	}
	for vi, v := range vals {
		typMap, nameMap := extractMaps(v)
		for _, api := range drv.FaultAPIs {
			var w int
			api, v, vi := api, v, vi
			e.emitEv(fmt.Sprintf("clean/%s/v%d", api, vi), func() proj.M {
				ev := drv.FaultRun(api, v, nameMap, typMap, 0, "")
				return ev
			})
			// number of writes of a clean run (recomputed here so that -only works)
			w = len(drv.FaultRun(api, v, nameMap, typMap, 0, "")["writes"].([][]int))
			off := 0
			if api == "Serializer.Write" {
				off = 1 // the first value's single write precedes
				w--
			}
			_ = off
			ks := []int{}
			for k := 1; k <= w; k++ {
				if w <= 60 || thorough || k <= 20 || k > w-20 || k%7 == 0 {
					ks = append(ks, k)
				}
			}
			for _, k := range ks {
				for _, kind := range []string{"once", "fromk", "short", "shorterr"} {
					k, kind := k, kind
					e.emitEv(fmt.Sprintf("%s/%s/v%d/k%d", kind, api, vi, k), func() proj.M {
						return drv.FaultRun(api, v, nameMap, typMap, k, kind)
					})
				}
			}
		}
	}
}

func extractMaps(v interface{}) (tm map[string]reflect.Type, nm map[string]string) {
	defer func() {
		if recover() != nil {
			tm, nm = map[string]reflect.Type{}, map[string]string{}
		}
	}()
	if v == nil {
		return map[string]reflect.Type{}, map[string]string{}
	}
	return hessianExtract(v)
}

// famC13: supported values with one sub-value at every position replaced by
// a value of every unsupported kind.
func famC13(e *emitter, g *gen.G, thorough bool) {
	bads := map[string]func() interface{}{
		"chan":       func() interface{} { return make(chan int) },
		"func":       func() interface{} { return func() {} },
		"complex64":  func() interface{} { return complex64(1 + 2i) },
		"complex128": func() interface{} { return complex128(1 + 2i) },
		"chanarr":    func() interface{} { return [1]chan int{make(chan int)} },
		"chanslice":  func() interface{} { return []chan int{make(chan int)} },
		"cplxslice":  func() interface{} { return []complex64{1} },
		"uintptr":    func() interface{} { return uintptr(7) },
		"unsafeptr":  func() interface{} { x := 1; return unsafe.Pointer(&x) },
	}
	names := []string{"chan", "func", "complex64", "complex128", "chanarr", "chanslice", "cplxslice", "uintptr", "unsafeptr"}
	reps := 1
	if thorough {
		reps = 20
	}
	for r := 0; r < reps; r++ {
		for _, nm := range names {
			mk := bads[nm]
			e.emit("top/"+nm, mk())
			for n := 1; n <= 4; n++ {
				for pos := 0; pos < n; pos++ {
					l := make([]interface{}, n)
					for i := range l {
						l[i] = int32(g.R.Intn(100))
					}
					l[pos] = mk()
					e.emit(fmt.Sprintf("list%d@%d/%s", n, pos, nm), l)
					e.emit(fmt.Sprintf("inlist%d@%d/%s", n, pos, nm), zoo.BadInList{L: l})
					e.emit(fmt.Sprintf("nested%d@%d/%s", n, pos, nm), []interface{}{"x", l, zoo.Small{Name: "s"}})
					e.emit(fmt.Sprintf("typedouter%d@%d/%s", n, pos, nm), [][]interface{}{{int32(1)}, l})
				}
			}
			for _, n := range []int{8, 9, 31, 32, 33, 40, 300, 1030} {
				for _, pos := range []int{0, n / 2, n - 1} {
					l := make([]interface{}, n)
					for i := range l {
						l[i] = int32(i)
					}
					l[pos] = mk()
					e.emit(fmt.Sprintf("longlist%d@%d/%s", n, pos, nm), l)
					if nm == "chan" || nm == "complex128" {
						e.emit(fmt.Sprintf("longinlist%d@%d/%s", n, pos, nm), zoo.BadInList{L: l})
						e.emit(fmt.Sprintf("longmapval%d@%d/%s", n, pos, nm), map[string]interface{}{"k": l})
					}
				}
			}
			e.emit("mapval/"+nm, map[string]interface{}{"a": int32(1), "b": mk(), "c": "z"})
			e.emit("mapval1/"+nm, map[string]interface{}{"b": mk()})
			e.emit("inmap/"+nm, &zoo.BadInMap{M: map[string]interface{}{"k": mk()}})
			e.emit("mapkey/"+nm, func() interface{} {
				defer func() { recover() }()
				return map[interface{}]interface{}{mk(): int32(1)}
			}())
			e.emit("deep/"+nm, []interface{}{map[string]interface{}{"l": []interface{}{zoo.BadInList{L: []interface{}{int32(5), mk()}}}}})
		}
		// containers whose DECLARED element / key / value type is an unsupported kind
		var up unsafe.Pointer = unsafe.Pointer(&r)
		for i, v := range []interface{}{[]unsafe.Pointer{up}, map[string]unsafe.Pointer{"k": up}, map[unsafe.Pointer]string{up: "v"},
			[]func(){func() {}}, map[string]chan int{"k": make(chan int)}, map[chan int]string{make(chan int): "v"}, []uintptr{1, 2},
			map[string]complex128{"k": 1i}, map[complex64]int32{1i: 1}, [2]unsafe.Pointer{up, up}, [][]unsafe.Pointer{{up}},
			map[string][]func(){"k": {func() {}}}, []interface{}{int32(1), []unsafe.Pointer{up}}, zoo.Small{}, up} {
			e.emit(fmt.Sprintf("declared/%d", i), v)
		}
		// a field that is not exported cannot be written (the decoder could not set it): an error, no panic
		e.emit("field/unexported", zoo.NewUnexp(1, 2))
		e.emit("field/unexportedptr", &[]zoo.Unexp{zoo.NewUnexp(3, 4)}[0])
		e.emit("field/unexportedlist", []interface{}{int32(1), zoo.NewUnexp(5, 6)})
		e.emit("field/embeddedhidden", zoo.NewEmbHidden(7))
		e.emit("field/chan", zoo.BadChan{Ok: 1, C: make(chan int)})
		e.emit("field/nilchan", zoo.BadChan{Ok: 1})
		e.emit("field/func", &zoo.BadFunc{Ok: 2, F: func() {}})
		e.emit("field/nilfunc", &zoo.BadFunc{Ok: 2})
		e.emit("field/cplx", zoo.BadCplx{Ok: 3, C: 1i})
		e.emit("listofbad/chan", []zoo.BadChan{{Ok: 1, C: make(chan int)}})
		e.emit("listofbad/cplx", []*zoo.BadCplx{{Ok: 1, C: 2}})
		e.emit("mapofbad/func", map[string]zoo.BadFunc{"f": {F: func() {}}})
		// controls: the same shapes without the bad element must encode
		e.emit("control/list", []interface{}{int32(1), "a", zoo.Small{Name: "s"}})
		e.emit("control/map", map[string]interface{}{"a": int32(1), "c": "z"})
		e.emit("control/inlist", zoo.BadInList{L: []interface{}{int32(1), int64(2)}})
		e.emit("control/longlist", make([]interface{}, 40))
		e.emit("typedbad/chan40", make([]chan int, 40))
		e.emit("typedbad/cplx33", make([]complex128, 33))
	}
}

func runCodec(fam string, seed int64, tier, out string, shards, only int) {
	w := newShardWriter(out, "trace", shards)
	defer w.close()
	g := gen.New(seed)
	e := &emitter{w: w, only: only, distinct: map[[20]byte]bool{}, fam: fam}
	th := tier == "thorough"
	rule := ""
	switch fam {
	case "c01":
		famC01(e, g, th)
		rule = "zoo types x {zero, random} + directed container lengths + 1..20 classes; distinct by hash of the projected value, non-trivial = more than one small leaf"
	case "c07":
		famC07(e, g, th)
		rule = "int64 values at every form boundary +-3, 2^k+-1, uniform + log-uniform; x 10 Go kinds x {top, field, list, map key/value}"
	case "c08":
		famC08(e, g, th)
		rule = "integers -70000..70000, 2^k and neighbours, edge doubles, random 64-bit and widened 32-bit patterns; top, float32, field, list, map"
	case "c09":
		famC09(e, g, th)
		rule = "string lengths around short/medium/chunk boundaries x 6 content classes; binary lengths around 15/1023/4096k; top, field, list, map"
	case "c06":
		famC06(e, g, th)
		rule = "sequences of 1..50 mixed values (scalars, strings, binaries, lists, maps, structs of 10 zoo types by value and by pointer, earlier pointers sent again) through Encoder.WriteObject/Decoder.ReadObject and Serializer.WriteTo+Write/ReadFrom+Read over a counting reader without read-ahead"
	case "c15":
		famC15(e, g, th)
		rule = "for each value and each writer-taking entry point: every index k of the k-th Write of the clean run x {error once, error from k on, short count, short count with error}; distinct = distinct (value, api, k, kind)"
	case "c04":
		famC04(e, g, th)
		rule = "every edge assignment over <=3 (thorough <=4) nodes with two pointer fields; x every filler kind for <=2 (3) nodes; slices/maps of pointers incl. shared ones and ones behind pointers; seeded random graphs"
	case "c13":
		famC13(e, g, th)
		rule = "lists/maps/structs/nested values with one sub-value at every position replaced by chan, func, complex64/128, arrays and slices of those, uintptr; plus well-formed controls"
	case "c10":
		famC10(e, g, th)
		rule = "instants at +-2^31 s, epoch, year 1/1677/1678/2262/2263/9999 boundaries +-1s x sub-second offsets, random; top, field, list"
	default:
		fmt.Fprintln(os.Stderr, "unknown family", fam)
		os.Exit(2)
	}
	e.finish(out, rule)
}
