package main

import (
	"bufio"
	"encoding/json"
	"fmt"
	"math/rand"
	"os"
	"reflect"
	"runtime"
	"sort"
	"sync"
	"sync/atomic"
	"time"

	hessian "github.com/vogo/gohessian"
	"verifharness/drv"
	"verifharness/proj"
	"verifharness/zoo"
)

var poolKinds = []string{"enc", "dec", "ser"}

func newPool(kind string, size int, tm map[string]reflect.Type, nm map[string]string) hessian.Pool {
	switch kind {
	case "enc":
		return hessian.NewEncoderPool(size, nm)
	case "dec":
		return hessian.NewDecoderPool(size, tm)
	}
	return hessian.NewSerializerPool(size, tm, nm)
}

type idTable struct {
	mu  sync.Mutex
	ids map[interface{}]int
}

func (t *idTable) id(o interface{}) int {
	t.mu.Lock()
	defer t.mu.Unlock()
	if id, ok := t.ids[o]; ok {
		return id
	}
	id := len(t.ids) + 1
	t.ids[o] = id
	return id
}

// usePooled makes one round trip with a pooled object (it must be usable).
func usePooled(kind string, o interface{}, v interface{}, tm map[string]reflect.Type, nm map[string]string) proj.M {
	ev := proj.M{"ev": "rt", "xpanic": 0}
	P := proj.New(nm)
	ev["v"] = P.Project(v).JSON()
	var out []byte
	var err error
	var r interface{}
	msg, p := drv.Call(func() {
		switch kind {
		case "enc":
			out, err = o.(*hessian.Encoder).Encode(v)
		case "ser":
			out, err = o.(hessian.Serializer).ToBytes(v)
		default:
			out, err = hessian.ToBytes(v, nm)
		}
	})
	ev["epanic"], ev["eerr"], ev["emsg"], ev["out"] = b2i(p), b2i(err != nil), msg, proj.Octets(out)
	if p || err != nil {
		ev["dskip"] = 1
		ev["T"] = P.Types
		return ev
	}
	ev["dskip"] = 0
	msg, p = drv.Call(func() {
		switch kind {
		case "dec":
			r, err = o.(*hessian.Decoder).Decode(out)
		case "ser":
			r, err = o.(hessian.Serializer).ToObject(out)
		default:
			r, err = hessian.ToObject(out, tm)
		}
	})
	ev["dpanic"], ev["derr"], ev["dmsg"], ev["carrier"] = b2i(p), b2i(err != nil), msg, b2i(drv.Carrier(r))
	if p || err != nil || drv.Carrier(r) {
		r = nil
	}
	ev["r"] = P.Project(r).JSON()
	ev["T"] = P.Types
	return ev
}

func b2i(b bool) int {
	if b {
		return 1
	}
	return 0
}

// runPoolSeq replays TLC-generated sequential schedules on real pools.
func runPoolSeq(vectors, out string, shards, only int) {
	w := newShardWriter(out, "trace", shards)
	wu := newShardWriter(out, "use", shards)
	defer w.close()
	defer wu.close()
	f, err := os.Open(vectors)
	if err != nil {
		panic(err)
	}
	defer f.Close()
	sc := bufio.NewScanner(f)
	sc.Buffer(make([]byte, 1<<20), 1<<26)
	probe := &zoo.Small{Name: "pooled", N: 7}
	tm, nm := hessian.ExtractTypeNameMap([]interface{}{probe, zoo.Item{}})
	n, nu := 0, 0
	samples := []interface{}{}
	hangs := 0
	drv.Timeout = 5 * time.Second
	for sc.Scan() {
		if hangs >= 3 {
			break // every further schedule would block the same way: three recorded hangs are enough
		}
		var vec struct {
			Size int `json:"size"`
			H    []struct {
				Op string `json:"op"`
				G  int    `json:"g"`
				J  int    `json:"j"`
			} `json:"h"`
		}
		if err := json.Unmarshal(sc.Bytes(), &vec); err != nil {
			panic(err)
		}
		for _, kind := range poolKinds {
			id := n
			n++
			if only >= 0 && id != only {
				continue
			}
			p := newPool(kind, vec.Size, tm, nm)
			ids := &idTable{ids: map[interface{}]int{}}
			held := map[int][]interface{}{}
			ops := []proj.M{}
			step := func(op string, g int, j int) bool {
				var o interface{}
				_, hung := drv.Call(func() {
					if op == "get" {
						o = p.Get()
					} else {
						o = held[g][j-1]
						p.Return(o)
					}
				})
				if hung {
					hangs++
					ops = append(ops, proj.M{"op": op, "g": g, "obj": 0, "hang": 1})
					return false
				}
				if op == "get" {
					held[g] = append(held[g], o)
					if nu < 400 && only < 0 {
						ev := usePooled(kind, o, probe, tm, nm)
						ev["label"] = fmt.Sprintf("use/%s/vec%d", kind, id)
						wu.writeID(ev, nu)
						nu++
					}
				} else {
					held[g] = append(held[g][:j-1], held[g][j:]...)
				}
				ops = append(ops, proj.M{"op": op, "g": g, "obj": ids.id(o), "hang": 0})
				return true
			}
			ok := true
			for _, h := range vec.H {
				if ok = step(h.Op, h.G, h.J); !ok {
					break
				}
			}
			// every object held right now is used at the same time: interleaved streams, one per holder
			// (an object handed to two holders, or two objects sharing state, garble each other's stream)
			if ok && nu < 1200 && only < 0 {
				var objs []interface{}
				for g := 0; g <= 8; g++ {
					objs = append(objs, held[g]...)
				}
				if len(objs) >= 2 {
					vals := make([][]interface{}, len(objs))
					for i := range objs {
						vals[i] = []interface{}{&zoo.Small{Name: fmt.Sprintf("first of %d", i), N: int32(i)}, fmt.Sprintf("second of %d", i),
							zoo.Item{K: fmt.Sprintf("third of %d", i), V: int64(i)}}
					}
					for _, sev := range drv.StreamOn(kind, objs, vals, tm, nm) {
						sev["label"] = fmt.Sprintf("overlap/%s/vec%d", kind, id)
						wu.writeID(sev, nu)
						nu++
					}
				}
			}
			// drain: what the pool retained comes out oldest first, then a fresh object
			for i := 0; ok && i <= vec.Size; i++ {
				ok = step("get", 0, 0)
			}
			ev := proj.M{"ev": "poolseq", "size": vec.Size, "kind": kind, "ops": ops, "label": fmt.Sprintf("%s/size%d/vec%d", kind, vec.Size, id)}
			if len(samples) < 3 {
				samples = append(samples, ev)
			}
			w.writeID(ev, id)
		}
	}
	s := proj.M{"evaluations": n, "traces": n, "distinct_nontrivial": n, "samples": samples,
		"family_rule": "every behaviour of HPool (TLC-enumerated schedule) x {encoder, decoder, serializer} pool, followed by a drain of Size+1 Gets; distinct = distinct (schedule, pool kind)", "use_events": nu}
	b, _ := json.Marshal(s)
	os.WriteFile(out+"/summary.json", b, 0o644)
}

// runPoolConc drives real pools from many goroutines; every call is logged
// with a start and an end ticket from one atomic counter.
func runPoolConc(seed int64, tier, out string, shards int) {
	os.MkdirAll(out, 0o755)
	probe := &zoo.Small{Name: "pooled", N: 7}
	tm, nm := hessian.ExtractTypeNameMap(probe)
	nh := shards
	r := rand.New(rand.NewSource(seed))
	samples := []interface{}{}
	total := 0
	for h := 0; h < nh; h++ {
		gs := []int{1, 2, 3, 4, 8, 16, 32, 64}[r.Intn(8)]
		size := r.Intn(9)
		opsPer := 40
		if tier == "thorough" {
			opsPer = 200
		}
		if gs >= 32 {
			opsPer = opsPer / 4
		}
		kind := poolKinds[h%3]
		p := newPool(kind, size, tm, nm)
		ids := &idTable{ids: map[interface{}]int{}}
		type rec struct {
			T   int64
			Typ string
			G   int
			Op  string
			Obj int
		}
		var ticket int64
		logs := make([][]rec, gs)
		var wg sync.WaitGroup
		blocked := int32(0)
		done := make(chan struct{})
		for g := 0; g < gs; g++ {
			wg.Add(1)
			rg := rand.New(rand.NewSource(seed*1000 + int64(h)*100 + int64(g)))
			go func(g int) {
				defer wg.Done()
				var held []interface{}
				for i := 0; i < opsPer; i++ {
					if len(held) > 0 && (rg.Intn(2) == 0 || len(held) > 3) {
						j := rg.Intn(len(held))
						o := held[j]
						held = append(held[:j], held[j+1:]...)
						id := ids.id(o)
						s := atomic.AddInt64(&ticket, 1)
						p.Return(o)
						e := atomic.AddInt64(&ticket, 1)
						logs[g] = append(logs[g], rec{s, "S", g, "ret", id}, rec{e, "E", g, "ret", id})
					} else {
						s := atomic.AddInt64(&ticket, 1)
						o := p.Get()
						e := atomic.AddInt64(&ticket, 1)
						id := ids.id(o)
						held = append(held, o)
						logs[g] = append(logs[g], rec{s, "S", g, "get", id}, rec{e, "E", g, "get", id})
					}
				}
			}(g)
		}
		go func() { wg.Wait(); close(done) }()
		select {
		case <-done:
		case <-time.After(60 * time.Second):
			atomic.StoreInt32(&blocked, 1)
		}
		f, _ := os.Create(fmt.Sprintf("%s/trace.%02d.ndjson", out, h))
		bw := bufio.NewWriter(f)
		hdr, _ := json.Marshal(proj.M{"size": size, "g": gs, "kind": kind, "blocked": blocked, "id": h})
		bw.Write(hdr)
		bw.WriteByte('\n')
		if blocked == 0 {
			all := []rec{}
			for _, l := range logs {
				all = append(all, l...)
			}
			// tickets are unique: sort by ticket
			byT := make([]rec, len(all)+1)
			for _, x := range all {
				byT[x.T] = x
			}
			for _, x := range byT[1:] {
				b, _ := json.Marshal(proj.M{"t": x.Typ, "g": x.G, "op": x.Op, "obj": x.Obj})
				bw.Write(b)
				bw.WriteByte('\n')
			}
			total += len(all) / 2
		}
		bw.Flush()
		f.Close()
		if len(samples) < 3 {
			samples = append(samples, proj.M{"goroutines": gs, "size": size, "kind": kind, "calls": gs * opsPer})
		}
	}
	// bursts: c objects are cached, then G > c callers are released at the same instant (spin barrier) and
	// each calls Get once: c of them receive the cached objects, the others fresh ones, nobody waits.
	// The first rounds are logged with tickets like the histories above; the later ones only watch for blocking.
	rounds := 4000
	if tier == "thorough" {
		rounds = 60000
	}
	for b := 0; b < 3; b++ {
		h := nh + b
		size := b + 1
		G := []int{3, 8, 5}[b]
		kind := poolKinds[b%3]
		p := newPool(kind, size, tm, nm)
		ids := &idTable{ids: map[interface{}]int{}}
		type rec struct {
			T   int64
			Typ string
			G   int
			Op  string
			Obj int
		}
		var ticket, phase int64
		var finished int32
		logs := make([][]rec, G+1)
		got := make([]interface{}, G)
		const logged = 40
		for g := 0; g < G; g++ {
			go func(g int) {
				for round := int64(1); round <= int64(rounds); round++ {
					for atomic.LoadInt64(&phase) < round {
						runtime.Gosched()
					}
					s := atomic.AddInt64(&ticket, 1)
					o := p.Get()
					e := atomic.AddInt64(&ticket, 1)
					got[g] = o
					if round <= logged {
						id := ids.id(o)
						logs[g] = append(logs[g], rec{s, "S", g, "get", id}, rec{e, "E", g, "get", id})
					}
					atomic.AddInt32(&finished, 1)
				}
			}(g)
		}
		blocked := int32(0)
		var held []interface{}
		for i := 0; i < size; i++ {
			s := atomic.AddInt64(&ticket, 1)
			o := p.Get()
			e := atomic.AddInt64(&ticket, 1)
			id := ids.id(o)
			logs[G] = append(logs[G], rec{s, "S", G, "get", id}, rec{e, "E", G, "get", id})
			held = append(held, o)
		}
		nrounds := 0
	burst:
		for round := int64(1); round <= int64(rounds); round++ {
			c := 1 + int(round)%size
			for i := 0; i < c && i < len(held); i++ {
				s := atomic.AddInt64(&ticket, 1)
				p.Return(held[i])
				e := atomic.AddInt64(&ticket, 1)
				if round <= logged {
					id := ids.id(held[i])
					logs[G] = append(logs[G], rec{s, "S", G, "ret", id}, rec{e, "E", G, "ret", id})
				}
			}
			atomic.StoreInt32(&finished, 0)
			atomic.StoreInt64(&phase, round)
			deadline := time.Now().Add(10 * time.Second)
			for atomic.LoadInt32(&finished) < int32(G) {
				if time.Now().After(deadline) {
					blocked = 1
					break burst
				}
				runtime.Gosched()
			}
			held = append(held[:0], got...)
			nrounds++
		}
		f, _ := os.Create(fmt.Sprintf("%s/trace.%02d.ndjson", out, h))
		bw := bufio.NewWriter(f)
		hdr, _ := json.Marshal(proj.M{"size": size, "g": G + 1, "kind": kind, "blocked": blocked, "id": h, "burst_rounds": nrounds})
		bw.Write(hdr)
		bw.WriteByte('\n')
		if blocked == 0 {
			all := []rec{}
			for _, l := range logs {
				all = append(all, l...)
			}
			sort.Slice(all, func(i, j int) bool { return all[i].T < all[j].T })
			for _, x := range all {
				bj, _ := json.Marshal(proj.M{"t": x.Typ, "g": x.G, "op": x.Op, "obj": x.Obj})
				bw.Write(bj)
				bw.WriteByte('\n')
			}
			total += len(all)/2 + (nrounds-logged)*G
		}
		bw.Flush()
		f.Close()
	}
	nh += 3
	s := proj.M{"evaluations": total, "traces": nh, "distinct_nontrivial": nh, "samples": samples,
		"family_rule": "concurrent histories: 1..64 goroutines x pool size 0..8 x random Get/Return mixes, each call bracketed by tickets of one atomic counter; plus bursts: c objects cached and G > c callers released at one instant, 4000 (60000) rounds per pool size 1..3, the first 40 rounds logged for the linearizability check, all watched for blocking; distinct = histories"}
	b, _ := json.Marshal(s)
	os.WriteFile(out+"/summary.json", b, 0o644)
}
