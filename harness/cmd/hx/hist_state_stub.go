//go:build !verif

package main

func (h *histInstance) tableSizes() (enc []int, dec []int) {
	return []int{-1, -1, -1}, []int{-1, -1, -1}
}

const haveTableSizes = 0
