package main

import (
	"bufio"
	"encoding/json"
	"flag"
	"fmt"
	"os"

	"verifharness/drv"
	"verifharness/proj"
)

func main() {
	if len(os.Args) < 2 {
		fmt.Fprintln(os.Stderr, "usage: hx <command> [flags]")
		os.Exit(2)
	}
	cmd := os.Args[1]
	fs := flag.NewFlagSet(cmd, flag.ExitOnError)
	seed := fs.Int64("seed", 1, "seed")
	tier := fs.String("tier", "quick", "quick|thorough")
	out := fs.String("out", "", "output directory")
	shards := fs.Int("shards", 16, "number of trace shards")
	fam := fs.String("family", "", "value family")
	only := fs.Int("only", -1, "run only this event id")
	frac := fs.Int("frac", 1, "sweep every frac-th value only (testing)")
	mode := fs.String("mode", "exact", "exact|vary")
	vectors := fs.String("vectors", "", "file of TLC-generated vectors (one JSON object per line)")
	fs.Parse(os.Args[2:])
	drv.Silence()
	switch cmd {
	case "altvalues":
		runAltValues(*fam, *seed, *tier, *out)
	case "altreplay":
		runAltReplay(*fam, *seed, *tier, *vectors, *out, *shards, *only, *mode)
	case "hostilecorpus":
		runHostileCorpus(*seed, *out)
	case "hostile":
		runHostile(*seed, *tier, *vectors, *out, *shards, *only)
	case "hostile-worker":
		runHostileWorker(*seed)
	case "hist":
		runHist(*vectors, *out, *shards, *only)
	case "extract":
		runExtract(*seed, *tier, *out, *shards, *only)
	case "extract-worker":
		runExtractWorker()
	case "concsched":
		runConcSched(*vectors, *out, *shards, *only)
	case "concload":
		runConcLoad(*seed, *tier, *out, *shards)
	case "inventory":
		repo := os.Getenv("VERIF_REPO")
		if repo == "" {
			repo = "/repo"
		}
		runInventory(repo, *out)
	case "sweep":
		runSweep(*fam, *vectors, *tier, *out, *seed, *shards, *frac)
	case "poolseq":
		runPoolSeq(*vectors, *out, *shards, *only)
	case "poolconc":
		runPoolConc(*seed, *tier, *out, *shards)
	case "codec":
		runCodec(*fam, *seed, *tier, *out, *shards, *only)
	default:
		fmt.Fprintln(os.Stderr, "unknown command", cmd)
		os.Exit(2)
	}
}

// shardWriter spreads events round-robin over n ndjson files.
type shardWriter struct {
	fs []*os.File
	ws []*bufio.Writer
	n  int
}

func newShardWriter(dir, base string, n int) *shardWriter {
	os.MkdirAll(dir, 0o755)
	s := &shardWriter{}
	for i := 0; i < n; i++ {
		f, err := os.Create(fmt.Sprintf("%s/%s.%02d.ndjson", dir, base, i))
		if err != nil {
			panic(err)
		}
		s.fs = append(s.fs, f)
		s.ws = append(s.ws, bufio.NewWriterSize(f, 1<<20))
	}
	return s
}

func (s *shardWriter) writeID(ev proj.M, id int) {
	ev["id"] = id
	b, err := json.Marshal(ev)
	if err != nil {
		panic(err)
	}
	w := s.ws[id%len(s.ws)]
	w.Write(b)
	w.WriteByte('\n')
}

func (s *shardWriter) write(ev proj.M) {
	ev["id"] = s.n
	b, err := json.Marshal(ev)
	if err != nil {
		panic(err)
	}
	w := s.ws[s.n%len(s.ws)]
	w.Write(b)
	w.WriteByte('\n')
	s.n++
}

func (s *shardWriter) close() {
	for i := range s.fs {
		s.ws[i].Flush()
		s.fs[i].Close()
	}
}
