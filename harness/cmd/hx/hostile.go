package main

import (
	"bufio"
	"encoding/json"
	"fmt"
	"io"
	"math/rand"
	"os"
	"os/exec"
	"reflect"
	"regexp"
	"runtime"
	"runtime/debug"
	"sort"
	"strings"
	"syscall"
	"time"

	hessian "github.com/vogo/gohessian"
	"verifharness/drv"
	"verifharness/gen"
	"verifharness/proj"
	"verifharness/zoo"
)

// hostileCorpus: valid messages of every shape (the library's own renderings).
func hostileCorpus(seed int64) ([][]byte, map[string]reflect.Type) {
	g := gen.New(seed)
	x := &zoo.Small{Name: "x", N: 1}
	n1 := &zoo.Node{Name: "n1"}
	n2 := &zoo.Node{Name: "n2", A: n1, B: n1, L: []*zoo.Node{n1, nil}, M: map[string]*zoo.Node{"k": n1}}
	n1.A = n2
	vals := []interface{}{int32(5), int32(300000), int64(1) << 40, 1.5, 2.0, "hello", "héllo wörld", []byte{1, 2, 3}, true, nil,
		time.Unix(1500000000, 0), time.Unix(1500000000, 5000000),
		[]int32{1, 2, 3}, []string{"a", "", "b"}, []interface{}{int32(1), "x", nil, 2.5}, [][]int32{{1}, {2, 3}},
		make([]int32, 9), map[string]int32{"k": 1, "j": 2}, zoo.NamedMap{"a": 1},
		zoo.Small{Name: "a", N: 1}, []*zoo.Small{x, x, nil}, []zoo.Item{{K: "k", V: 1}, {K: "l", V: 2}},
		zoo.CustomHolder{Title: "t", Items: []zoo.Custom{{Key: "k", Val: "v"}}, One: zoo.Custom{Key: "o"}},
		wideElems(18), zoo.Scalars{I: 1, S: "s", Bin: []byte{9}, T: time.Unix(5, 5000000), F64: 1.25},
		zoo.Conts{MS: map[string]string{"a": "b"}, LL: [][]int32{{1}, {}}, MP: map[string]*zoo.Small{"p": x}, Ptrs: []*zoo.Small{x}},
		zoo.Slices{I32s: []int32{1, 2}, Ss: []string{"a"}}, zoo.HoldRecList{Kids: zoo.RecList{zoo.RecList{}, nil}, N: 1}, zoo.HoldRecMap{M: zoo.RecMap{"a": zoo.RecMap{}}},
		n2, zoo.Five{A: 1, B: "b", C: 2, D: true, E: 0.5}, g.String(40, -1), g.String(2100, 0), make([]byte, 4200),
	}
	all := append([]interface{}{}, vals...)
	tm, nm := hessian.ExtractTypeNameMap(all)
	var out [][]byte
	for _, v := range vals {
		b, err := hessian.ToBytes(v, nm)
		if err == nil {
			out = append(out, b)
		}
	}
	// long lists: only their headers are damaged by MutGen (first offsets), the body stays present
	for _, v := range []interface{}{make([]int32, 1100), make([]interface{}, 1100), make([]string, 1030)} {
		b, err := hessian.ToBytes(v, nm)
		if err == nil {
			out = append(out, b)
		}
	}
	// well-formed messages no Go value produces: containers that contain themselves
	out = append(out,
		[]byte{0x79, 0x51, 0x90},                                     // fixed list holding itself
		[]byte{0x57, 0x51, 0x90, 0x5a},                               // variable list holding itself
		[]byte{0x48, 0x51, 0x90, 0x91, 0x5a},                         // map with itself as key
		[]byte{0x48, 0x01, 0x6b, 0x51, 0x90, 0x5a},                   // map with itself as value
		[]byte{0x48, 0x79, 0x51, 0x91, 0x91, 0x5a},                   // map whose key is a list holding itself
		[]byte{0x7a, 0x79, 0x51, 0x91, 0x51, 0x90},                   // list of (list holding itself, outer list)
		[]byte{0x71, 0x04, 0x5b, 0x69, 0x6e, 0x74, 0x51, 0x90},       // typed list [int holding itself
		[]byte{0x48, 0x48, 0x51, 0x91, 0x51, 0x90, 0x5a, 0x91, 0x5a}, // map keyed by a map that refers to both
		// chunked strings / binaries with empty, growing and shrinking chunks
		[]byte{0x52, 0x00, 0x00, 0x03, 'a', 'b', 'c'},
		[]byte{0x52, 0x00, 0x01, 'a', 0x52, 0x00, 0x00, 0x53, 0x00, 0x02, 'b', 'c'},
		[]byte{0x52, 0x00, 0x00, 0x52, 0x00, 0x00, 0x00},
		[]byte{0x41, 0x00, 0x00, 0x23, 1, 2, 3},
		[]byte{0x41, 0x00, 0x01, 9, 0x41, 0x00, 0x00, 0x42, 0x00, 0x02, 8, 7},
		[]byte{0x7a, 0x52, 0x00, 0x00, 0x01, 'x', 0x41, 0x00, 0x00, 0x20},
		// cyclic untyped containers handed to TYPED destinations (type names the type map knows)
		[]byte{0x7a, 0x51, 0x90, 0x71, 0x06, '[', 'i', 'n', 't', '3', '2', 0x51, 0x90}, // [self, [int32 holding the outer list]
		[]byte{0x71, 0x06, '[', 'i', 'n', 't', '3', '2', 0x79, 0x51, 0x91},             // [int32 holding a list that holds itself
		[]byte{0x71, 0x07, '[', 's', 't', 'r', 'i', 'n', 'g', 0x79, 0x51, 0x91},        // [string ...
		[]byte{0x79, 0x71, 0x06, '[', 'i', 'n', 't', '6', '4', 0x51, 0x90},             // list holding [int64 holding the list
	)
	return out, tm
}

func hstr(s string) []byte {
	if len(s) < 32 {
		return append([]byte{byte(len(s))}, s...)
	}
	return append([]byte{'S', byte(len(s) >> 8), byte(len(s))}, s...)
}

// cyclicDirected: messages <<variable list: a container holding itself; X>> where X refers to that
// container (or to itself) from a field of every registered struct, from the key, value or element
// position of a typed map / list of every registered name.
func cyclicDirected(tm map[string]reflect.Type) [][]byte {
	preludes := [][]byte{
		{0x48, 0x01, 0x61, 0x51, 0x91, 0x5a}, // map with itself as value (ordinal 1: the outer list is 0)
		{0x48, 0x51, 0x91, 0x91, 0x5a},       // map with itself as key
		{0x79, 0x51, 0x91},                   // list holding itself
	}
	names := make([]string, 0, len(tm))
	for n := range tm {
		names = append(names, n)
	}
	sort.Strings(names)
	var out [][]byte
	wrap := func(p, x []byte) {
		m := append([]byte{0x57}, p...)
		m = append(m, x...)
		out = append(out, append(m, 0x5a))
	}
	for _, p := range preludes {
		for _, n := range names {
			t := tm[n]
			ref := []byte{0x51, 0x91}
			wrap(p, append(append(append([]byte{'M'}, hstr(n)...), ref...), append(ref, 0x5a)...))
			wrap(p, append(append(append([]byte{'M'}, hstr(n)...), 0x01, 'a'), append(ref, 0x5a)...))
			wrap(p, append(append(append([]byte{'M'}, hstr(n)...), ref...), 0x91, 0x5a))
			wrap(p, append(append([]byte{0x71}, hstr(n)...), ref...))
			wrap(p, append(append(append([]byte{'V'}, hstr(n)...), 0x92), append(ref, ref...)...))
			if t.Kind() != reflect.Struct || t.NumField() == 0 || t.NumField() > 15 {
				continue
			}
			def := append([]byte{'C'}, hstr(n)...)
			def = append(def, byte(0x90+t.NumField()))
			for i := 0; i < t.NumField(); i++ {
				def = append(def, hstr(t.Field(i).Name)...)
			}
			for _, target := range [][]byte{ref, {0x51, 0x92}} { // the cyclic container / the object itself
				for i := 0; i <= t.NumField(); i++ { // i == NumField: every field
					x := append(append([]byte{}, def...), 0x60)
					for j := 0; j < t.NumField(); j++ {
						if j == i || i == t.NumField() {
							x = append(x, target...)
						} else {
							x = append(x, 'N')
						}
					}
					wrap(p, x)
				}
			}
		}
	}
	// a generic list / map that contains itself, bound to a field whose declared type is a container type
	// that contains itself (conversion must not follow the cycle)
	cl := append(append([]byte{'C'}, hstr("HoldRecList")...), 0x92, 0x04, 'k', 'i', 'd', 's', 0x01, 'n')
	out = append(out, append(append([]byte{}, cl...), 0x60, 0x79, 0x51, 0x91, 0x91))
	out = append(out, append(append([]byte{}, cl...), 0x60, 0x7a, 0x79, 0x51, 0x91, 0x51, 0x91, 0x91))
	cm := append(append([]byte{'C'}, hstr("HoldRecMap")...), 0x91, 0x01, 'm')
	out = append(out, append(append([]byte{}, cm...), 0x60, 0x48, 0x01, 'k', 0x51, 0x91, 0x5a))
	// amplification: a long unknown field name with many instances; many typed back-references to one long generic list
	{
		name := strings.Repeat("z", 9000)
		m := append(append([]byte{0x57, 'C'}, hstr("Five")...), 0x91, 'S', byte(len(name)>>8), byte(len(name)))
		m = append(m, name...)
		for i := 0; i < 9000; i++ {
			m = append(m, 0x60, 'N')
		}
		out = append(out, append(m, 0x5a))
		l := []byte{0x57, 0x58, 0x49, 0x00, 0x00, 0x4e, 0x20} // variable list [ fixed list of 20000 ints ...
		for i := 0; i < 20000; i++ {
			l = append(l, 0x90)
		}
		l = append(append(l, 'C'), hstr("Slices")...)
		l = append(l, 0x91, 0x04, 'i', '3', '2', 's')
		for i := 0; i < 4000; i++ {
			l = append(l, 0x60, 0x51, 0x91)
		}
		out = append(out, append(l, 0x5a))
	}
	return out
}

func runHostileCorpus(seed int64, out string) {
	os.MkdirAll(out, 0o755)
	f, _ := os.Create(out + "/valid.ndjson")
	defer f.Close()
	w := bufio.NewWriter(f)
	defer w.Flush()
	msgs, _ := hostileCorpus(seed)
	for i, b := range msgs {
		if len(b) > 1500 {
			continue // very long messages are damaged by the random / prefix generators instead
		}
		j, _ := json.Marshal(proj.M{"id": i, "b": proj.Octets(b)})
		w.Write(j)
		w.WriteByte('\n')
	}
}

var hostileAPIs = []string{"ToObject", "Decoder.Decode", "Decoder.ReadFrom", "Decoder.ReadObject", "Serializer.ToObject", "Serializer.ReadFrom", "Serializer.Read"}

type hostileReq struct {
	ID  int    `json:"id"`
	API string `json:"api"`
	TM  int    `json:"tm"`
	In  []byte `json:"in"`
}

type hostileRes struct {
	ID    int    `json:"id"`
	Panic int    `json:"panic"`
	Msg   string `json:"msg"`
	Func  string `json:"func"`
	Hang  int    `json:"hang"`
	Alloc int    `json:"alloc"` // KiB
	Ms    int    `json:"ms"`
	Err   int    `json:"err"`
}

var frameRe = regexp.MustCompile(`github\.com/vogo/gohessian\.([^\s(]+(?:\([^)]*\))?[^\s(]*)\(`)

// runHostileWorker: one request per stdin line, one result per stdout line.
func runHostileWorker(seed int64) {
	// address-space limit: a decoder that allocates by declared lengths dies here, not the sandbox
	lim := syscall.Rlimit{Cur: 6 << 30, Max: 6 << 30}
	syscall.Setrlimit(syscall.RLIMIT_AS, &lim)
	debug.SetGCPercent(50)
	_, tm := hostileCorpus(seed)
	empty := map[string]reflect.Type{}
	in := bufio.NewReaderSize(os.Stdin, 1<<20)
	out := bufio.NewWriter(os.Stdout)
	drv.Timeout = 10 * time.Second
	for {
		line, err := in.ReadBytes('\n')
		if len(line) > 0 {
			var rq hostileReq
			if json.Unmarshal(line, &rq) != nil {
				continue
			}
			m := tm
			if rq.TM == 0 {
				m = empty
			}
			res := hostileRes{ID: rq.ID}
			var ms0, ms1 runtime.MemStats
			runtime.ReadMemStats(&ms0)
			t0 := time.Now()
			var stack string
			var derr error
			msg, p := drv.Call(func() {
				defer func() {
					if r := recover(); r != nil {
						stack = string(debug.Stack())
						panic(r)
					}
				}()
				switch rq.API {
				case "ToObject":
					_, derr = hessian.ToObject(rq.In, m)
				case "Decoder.Decode":
					_, derr = hessian.NewDecoder(nil, m).Decode(rq.In)
				case "Decoder.ReadFrom":
					_, derr = hessian.NewDecoder(nil, m).ReadFrom(&drv.CountingReader{B: rq.In})
				case "Decoder.ReadObject":
					d := hessian.NewDecoder(&drv.CountingReader{B: rq.In}, m)
					for i := 0; i < 8 && derr == nil; i++ {
						_, derr = d.ReadObject()
					}
				case "Serializer.ToObject":
					_, derr = hessian.NewSerializer(m, nil).ToObject(rq.In)
				case "Serializer.ReadFrom":
					_, derr = hessian.NewSerializer(m, nil).ReadFrom(&drv.CountingReader{B: rq.In})
				case "Serializer.Read":
					s := hessian.NewSerializer(m, nil)
					_, derr = s.ReadFrom(&drv.CountingReader{B: rq.In})
					for i := 0; i < 8 && derr == nil; i++ {
						_, derr = s.Read()
					}
				}
			})
			res.Ms = int(time.Since(t0) / time.Millisecond)
			runtime.ReadMemStats(&ms1)
			res.Alloc = int((ms1.TotalAlloc - ms0.TotalAlloc) >> 10)
			res.Err = b2i(derr != nil)
			if p {
				if strings.HasPrefix(msg, "hang:") {
					res.Hang = 1
				} else {
					res.Panic = 1
				}
				res.Msg = drv.ErrStr(fmt.Errorf("%s", msg))
				if mm := frameRe.FindStringSubmatch(stack); mm != nil {
					res.Func = mm[1]
				}
			}
			b, _ := json.Marshal(res)
			out.Write(b)
			out.WriteByte('\n')
			out.Flush()
			if res.Hang == 1 {
				os.Exit(3) // a spinning goroutine is left behind: start over in a clean process
			}
		}
		if err != nil {
			return
		}
	}
}

type hostileWorker struct {
	cmd *exec.Cmd
	in  io.WriteCloser
	out *bufio.Reader
}

func startWorker(seed int64) *hostileWorker {
	cmd := exec.Command(os.Args[0], "hostile-worker", "-seed", fmt.Sprint(seed))
	in, _ := cmd.StdinPipe()
	out, _ := cmd.StdoutPipe()
	cmd.Stderr = io.Discard
	if err := cmd.Start(); err != nil {
		panic(err)
	}
	return &hostileWorker{cmd, in, bufio.NewReaderSize(out, 1<<20)}
}

// msgClass abstracts a panic message into its class (numbers and addresses removed).
var numRe = regexp.MustCompile(`0x[0-9a-f]+|[0-9]+`)

func msgClass(s string) string {
	s = numRe.ReplaceAllString(s, "N")
	if len(s) > 80 {
		s = s[:80]
	}
	return s
}

func runHostile(seed int64, tier, vectors, out string, shards, only int) {
	w := newShardWriter(out, "trace", shards)
	defer w.close()
	rng := rand.New(rand.NewSource(seed))
	msgs, _ := hostileCorpus(seed)
	type item struct {
		in  []byte
		wf  int
		src string
		mut string
		at  int
	}
	var items []item
	// (1) TLC's structure-aware mutants with their classification
	if vectors != "" {
		f, err := os.Open(vectors)
		if err != nil {
			panic(err)
		}
		sc := bufio.NewScanner(f)
		sc.Buffer(make([]byte, 1<<20), 1<<26)
		for sc.Scan() {
			var v struct {
				B   []int  `json:"b"`
				WF  int    `json:"wf"`
				Mut string `json:"mut"`
				At  int    `json:"at"`
			}
			if json.Unmarshal(sc.Bytes(), &v) != nil {
				continue
			}
			b := make([]byte, len(v.B))
			for i, x := range v.B {
				b[i] = byte(x)
			}
			items = append(items, item{b, v.WF, "mut", v.Mut, v.At})
		}
		f.Close()
	}
	// (2) every prefix of every valid message
	for _, m := range msgs {
		step := 1
		if len(m) > 600 {
			step = len(m) / 300
		}
		for n := 0; n < len(m); n += step {
			items = append(items, item{m[:n], -1, "prefix", "", 0})
		}
	}
	// (3) uniformly random strings and random multi-byte damage of valid messages
	nr := 4000
	if tier == "thorough" {
		nr = 300000
	}
	for i := 0; i < nr; i++ {
		var b []byte
		switch i % 4 {
		case 0:
			b = make([]byte, rng.Intn(64))
			rng.Read(b)
		case 1:
			n := 1 << uint(rng.Intn(17))
			b = make([]byte, rng.Intn(n)+1)
			rng.Read(b)
		default:
			m := msgs[rng.Intn(len(msgs))]
			b = append([]byte{}, m...)
			for k := 0; k < 1+rng.Intn(4) && len(b) > 0; k++ {
				b[rng.Intn(len(b))] = byte(rng.Intn(256))
			}
		}
		items = append(items, item{b, -1, "rand", "", 0})
	}
	// (4) a container that contains itself, referred to from every typed position the type map offers
	_, tmKnown := hostileCorpus(seed)
	for _, b := range cyclicDirected(tmKnown) {
		items = append(items, item{b, -1, "cyclic", "known", 0})
	}
	wk := startWorker(seed)
	n, crashes, hangs := 0, 0, 0
	distinct := map[string]bool{}
	samples := []interface{}{}
	wfCount, deepest := 0, 0
	// inputs that attack resources (a huge declared count / index) go through every entry point
	// with both type maps; the others rotate through them
	var expanded []item
	var combos [][2]int
	for i, it := range items {
		if it.mut == "big" || it.mut == "replay" {
			for a := range hostileAPIs {
				for tm := 0; tm < 2; tm++ {
					expanded = append(expanded, it)
					combos = append(combos, [2]int{a, tm})
				}
			}
			continue
		}
		expanded = append(expanded, it)
		if it.src == "cyclic" { // typed positions exist only with the type map that knows the names
			combos = append(combos, [2]int{i % len(hostileAPIs), 1})
			continue
		}
		combos = append(combos, [2]int{i % len(hostileAPIs), (i / len(hostileAPIs)) % 2})
	}
	items = expanded
	for i, it := range items {
		api := hostileAPIs[combos[i][0]]
		tm := combos[i][1]
		id := n
		n++
		if only >= 0 && id != only {
			continue
		}
		if hangs >= 12 {
			continue // a dozen recorded hangs are a verdict; waiting 10 s for each further one adds nothing
		}
		if len(it.in) > 65536 {
			it.in = it.in[:65536]
		}
		distinct[string(it.in)] = true
		if it.wf == 1 {
			wfCount++
		}
		if it.at > deepest {
			deepest = it.at
		}
		rq, _ := json.Marshal(hostileReq{id, api, tm, it.in})
		wk.in.Write(rq)
		wk.in.Write([]byte{'\n'})
		line, err := wk.out.ReadBytes('\n')
		var res hostileRes
		crash := 0
		if err != nil || json.Unmarshal(line, &res) != nil {
			// the worker died on this very input (fatal error, out of memory): attribute and restart
			crash = 1
			crashes++
			wk.cmd.Process.Kill()
			wk.cmd.Wait()
			wk = startWorker(seed)
		} else if res.Hang == 1 {
			hangs++
			wk.cmd.Wait()
			wk = startWorker(seed)
		}
		ev := proj.M{"ev": "hostile", "api": api, "tm": tm, "len": len(it.in), "panic": res.Panic, "hang": res.Hang, "crash": crash,
			"alloc": res.Alloc, "ms": res.Ms, "wf": it.wf, "src": it.src, "pmsg": res.Msg,
			"label": fmt.Sprintf("%s/%s/tm%d", it.src, api, tm),
			"sig":   proj.M{"entry": api, "func": res.Func, "msg": msgClass(res.Msg)}}
		if len(it.in) <= 400 {
			ev["in"] = proj.Octets(it.in)
			ev["hasin"] = 1
		} else {
			ev["in"] = []int{}
			ev["hasin"] = 0
		}
		if len(samples) < 3 && it.src == "mut" {
			samples = append(samples, proj.M{"input": ev["in"], "mutation": it.mut, "well_formed": it.wf, "api": api})
		}
		w.writeID(ev, id)
	}
	wk.in.Close()
	wk.cmd.Wait()
	s := proj.M{"evaluations": n, "traces": n, "distinct_nontrivial": len(distinct), "samples": samples, "worker_crashes": crashes,
		"mutants_still_wellformed": wfCount, "deepest_first_error_offset": deepest,
		"family_rule": "TLC-generated structure-aware mutants of valid messages (every offset x mutation catalogue) + every prefix of valid messages + uniformly random strings up to 64 KiB + random multi-byte damage; x 7 decode entry points x type maps that do / do not know the classes; distinct = distinct octet strings"}
	b, _ := json.Marshal(s)
	os.WriteFile(out+"/summary.json", b, 0o644)
}
