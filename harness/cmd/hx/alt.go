package main

import (
	"bufio"
	"encoding/base64"
	"encoding/hex"
	"encoding/json"
	"fmt"
	"math"
	"os"
	"reflect"
	"strings"
	"time"

	hessian "github.com/vogo/gohessian"
	"verifharness/drv"
	"verifharness/gen"
	"verifharness/proj"
	"verifharness/zoo"
)

// ---- fixed vectors: octets written by other implementations / by the specification text ----
type jTraceVo struct {
	Key   string
	Value string
}

func (jTraceVo) HessianCodecName() string { return "hessian.TraceVo" }

type jTraceData struct {
	Seq  int32
	Data jTraceVo
}

func (jTraceData) HessianCodecName() string { return "hessian.TraceData" }

type jMessage struct {
	Title string
	Msg   []jTraceData
}

func (jMessage) HessianCodecName() string { return "hessian.Message" }

type jCar struct {
	Color string
	Model string
}

func (jCar) HessianCodecName() string { return "example.Car" }

type jColor struct{ Name string }

func (jColor) HessianCodecName() string { return "example.Color" }

type jLinked struct {
	Head int32
	Tail *jLinked
}

func (jLinked) HessianCodecName() string { return "LinkedList" }

func hexb(s string) []byte {
	var out []byte
	for _, f := range strings.Fields(s) {
		if strings.HasPrefix(f, "'") { // 'text'
			out = append(out, []byte(strings.Trim(f, "'"))...)
			continue
		}
		b, err := hex.DecodeString(f)
		if err != nil {
			panic(err)
		}
		out = append(out, b...)
	}
	return out
}

// fixtures: (expected Go value, octets).  The first is the message produced by the Java
// implementation in tests/java-tests (MessageTest.java); the others are the examples of the
// Hessian 2.0 serialization text as quoted in the repository's source comments.
func fixtures() ([]interface{}, [][]byte) {
	jm, _ := base64.StdEncoding.DecodeString("Qw9oZXNzaWFuLk1lc3NhZ2WSBXRpdGxlA21zZ2ACbTF6QxFoZXNzaWFuLlRyYWNlRGF0YZIDc2VxBGRhdGFh1eJAQw9oZXNzaWFuLlRyYWNlVm+SA2tleQV2YWx1ZWICazECdjFh1eJBYgJrMgJ2Mg==")
	loop := &jLinked{Head: 1}
	loop.Tail = loop
	vals := []interface{}{
		&jMessage{Title: "m1", Msg: []jTraceData{{Seq: 123456, Data: jTraceVo{"k1", "v1"}}, {Seq: 123457, Data: jTraceVo{"k2", "v2"}}}},
		[]interface{}{int32(0), int32(1)},
		"ahello",
		[]int32{0, 1},
		&jCar{Color: "red", Model: "corvette"},
		&jCar{Color: "green", Model: "civic"},
		[]interface{}{[]int32{0, 1}, []int32{2, 3, 4}},
		&jColor{Name: "RED"},
		map[interface{}]interface{}{int32(1): "fee", int32(16): "fie", int32(256): "foe"},
		loop,
		[]interface{}{&jColor{Name: "RED"}, &jColor{Name: "GREEN"}},
	}
	bs := [][]byte{
		jm,
		hexb("57 90 91 5a"),
		hexb("52 00 01 'a' 53 00 05 'hello'"),
		hexb("56 04 '[int' 92 90 91"),
		hexb("43 0b 'example.Car' 92 05 'color' 05 'model' 4f 90 03 'red' 08 'corvette'"),
		hexb("43 0b 'example.Car' 92 05 'color' 05 'model' 60 05 'green' 05 'civic'"),
		hexb("7a 72 04 '[int' 90 91 73 90 92 93 94"),
		hexb("43 0d 'example.Color' 91 04 'name' 60 03 'RED'"),
		hexb("48 91 03 'fee' a0 03 'fie' c9 00 03 'foe' 5a"),
		hexb("43 0a 'LinkedList' 92 04 'head' 04 'tail' 60 91 51 90"),
		hexb("7a 43 0d 'example.Color' 91 04 'name' 60 03 'RED' 60 05 'GREEN'"),
	}
	return vals, bs
}

// one list in a typed element slot, in an interface slot and in a typed field
type sharedLists struct {
	LL  [][]int32
	Any []interface{}
	One []int32
}

type mapThenLists struct {
	M  zoo.NamedMap
	L1 []int32
	L2 []int32
	L3 []string
	L4 []string
}

type pairS struct {
	S zoo.Small
	P *zoo.Small
	L []int32
}

// altValues: the (deterministic) value universe of a family.
func altValues(fam string, seed int64, tier string) []interface{} {
	th := tier == "thorough"
	g := gen.New(seed)
	switch fam {
	case "fixtures":
		vs, _ := fixtures()
		return vs
	case "graphs": // the exhaustive small pointer graphs of the C04 family, as values for the stream model
		var vs []interface{}
		e := &emitter{collect: func(label string, v interface{}) {
			keep := strings.HasPrefix(label, "ab1/") || strings.HasPrefix(label, "ab2/") || strings.HasPrefix(label, "fill") ||
				strings.HasPrefix(label, "lists/") || strings.HasPrefix(label, "maps/") || strings.HasPrefix(label, "shared/")
			if th && strings.HasPrefix(label, "ab3/") {
				keep = true
			}
			if strings.HasPrefix(label, "fill2/") && !th && len(vs)%3 != 0 {
				keep = false // a third of the two-node filler graphs in the quick tier
			}
			if keep {
				vs = append(vs, v)
			}
		}}
		famC04(e, g, false)
		return vs
	case "small": // exhaustive universe for C03: every encoding choice is enumerated by TLC
		x := &zoo.Small{Name: "x", N: 1}
		loop := &zoo.Node{Name: "l"}
		loop.A = loop
		vs := []interface{}{nil, true, false,
			int32(0), int32(47), int32(48), int32(-16), int32(-17), int32(2047), int32(2048), int32(-2048), int32(-2049),
			int32(262143), int32(262144), int32(-262144), int32(-262145), int32(math.MaxInt32), int32(math.MinInt32),
			int64(0), int64(15), int64(16), int64(-8), int64(-9), int64(2047), int64(2048), int64(-2049), int64(262144),
			int64(1) << 31, -(int64(1) << 31) - 1, int64(math.MaxInt64), int64(math.MinInt64),
			0.0, 1.0, 2.0, -1.0, 127.0, 128.0, -129.0, 32767.0, 32768.0, 1.5, 0.1, math.Inf(1),
			"", "a", "é", "ab", "a€b", "😀x", "abc",
			[]byte{}, []byte{1}, []byte{1, 2, 3},
			time.Unix(1500000000, 0), time.Unix(1500000000, 7000000),
			[]int32{}, []int32{1}, []int32{1, 2, 3}, []string{"a", ""}, []interface{}{int32(1), "a"}, [][]int32{{1}, {2}},
			map[string]int32{"a": 1}, map[string]int32{"a": 1, "b": 2},
			zoo.Small{}, &zoo.Small{Name: "a", N: 1}, zoo.HStr{V: "hi"},
			pairS{S: zoo.Small{Name: "s"}, P: x, L: []int32{5, 6}},
			&zoo.Node{Name: "r", A: &zoo.Node{Name: "c"}}, loop,
			[]zoo.Item{{K: "a", V: 1}, {K: "b", V: 2}}, []*zoo.Small{x, x, nil},
			zoo.NamedMap{"k": 3}, map[string]*zoo.Small{"p": x},
			zoo.CustomHolder{Title: "t", Items: []zoo.Custom{{Key: "k", Val: "v"}}},
			zoo.Slices{I32s: []int32{1, 2}, Ss: []string{"z"}},
		}
		sh := &zoo.Node{Name: "s"}
		vs = append(vs, mapThenLists{M: zoo.NamedMap{"k": 1}, L1: []int32{1}, L2: []int32{2}, L3: []string{"a"}, L4: []string{"b"}},
			[]interface{}{zoo.NamedMap{"k": 1}, []int32{1}, zoo.NamedMap{"j": 2}, []int32{2}})
		vs = append(vs, &zoo.Node{Name: "d", A: sh, B: sh}, &zoo.Node{Name: "m", M: map[string]*zoo.Node{"k": sh}, L: []*zoo.Node{sh}})
		// the same map twice in interface slots (of a list, of a map field): the second is a back-reference
		m1 := map[string]int32{"a": 1}
		vs = append(vs, []interface{}{m1, m1}, zoo.BadInMap{M: map[string]interface{}{"x": m1, "y": m1}}, []interface{}{zoo.NamedMap{"k": 1}, "s"})
		// a list that contains itself, and a list whose element refers back to it from a typed field
		self := []interface{}{nil, int32(7)}
		self[0] = self
		up := []interface{}{nil, "tail"}
		up[0] = &zoo.BadInList{L: up}
		vs = append(vs, self, up)
		sl := []int32{1, 2}
		vs = append(vs, &sharedLists{LL: [][]int32{sl}, Any: []interface{}{sl}, One: sl}, sharedLists{Any: []interface{}{sl, sl}, One: sl})
		nm1 := zoo.NamedMap{"k": 2}
		vs = append(vs, []interface{}{nm1, nm1})
		return vs
	case "c09": // strings and binaries in every position: every legal chunking (empty chunks included) is enumerated by TLC
		var vs []interface{}
		for _, s := range []string{"", "a", "é", "ab", "a€b", "😀x", "abc", "\ufffd", "a\ufffdcd"} {
			vs = append(vs, s, []string{s, "z"}, map[string]string{s: s}, zoo.HStr{V: s})
		}
		for _, b := range [][]byte{{}, {1}, {1, 2, 3}, {1, 2, 3, 4, 5}} {
			vs = append(vs, b, []interface{}{b, b}, map[string][]byte{"k": b}, zoo.HBin{V: b})
		}
		return vs
	case "rand": // seeded values; TLC draws the encoding choices (simulation)
		n := 150
		if th {
			n = 3000
		}
		vs := []interface{}{}
		for i := 0; i < n; i++ {
			g.Reset()
			g.MaxLen = 1 + i%6
			g.Share = 0.3
			t := reflect.TypeOf(zooTypes[i%14])
			if i%5 == 4 {
				t = reflect.TypeOf(topTypes[(i/5)%20])
				vs = append(vs, g.Value(t, 0).Interface())
				continue
			}
			p := reflect.New(t)
			g.Fill(p.Elem(), 0)
			vs = append(vs, p.Interface())
		}
		// long strings / binaries / lists: chunking and count forms beyond the small universe
		big := 3000
		if th {
			big = 70000
		}
		vs = append(vs, g.String(33000, 0), g.String(big, -1), g.String(2049, 2), make([]byte, big), make([]int32, 300),
			&zoo.Slices{Ss: []string{g.String(big/20, -1), "", g.String(40, 3)}})
		return vs
	case "c05s": // small objects: every definition variant x every definition index is enumerated
		sh := &zoo.Node{Name: "shared"}
		if tier != "thorough" {
			return []interface{}{&zoo.Small{Name: "n", N: 9}, zoo.HI64{V: -5},
				zoo.Derived{Base: zoo.Base{ID: 5, Tag: "t"}, Extra: "x"}, &zoo.Uni2{Élan: 3, Ñu: "ñ"},
				&zoo.Node{Name: "root", A: sh, B: sh, L: []*zoo.Node{sh}},
				[]interface{}{zoo.Small{Name: "e0", N: 1}, &zoo.HI64{V: 7}, zoo.Small{Name: "e2", N: 2}}}
		}
		return []interface{}{&zoo.Small{Name: "n", N: 9}, zoo.HI64{V: -5}, zoo.Item{K: "k", V: 2},
			zoo.Derived{Base: zoo.Base{ID: 5, Tag: "t"}, Extra: "x"}, &zoo.Uni2{Élan: 3, Ñu: "ñ"},
			&zoo.Node{Name: "root", A: sh, B: sh, L: []*zoo.Node{sh}},
			[]interface{}{zoo.Small{Name: "e0", N: 1}, &zoo.HI64{V: 7}, zoo.Small{Name: "e2", N: 2}}}
	case "c05": // objects for class-definition variation
		vs := []interface{}{zoo.Five{A: 1, B: "b", C: 1 << 40, D: true, E: 2.5}, &zoo.Small{Name: "n", N: 9},
			zoo.HI64{V: -5}, zoo.Item{K: "k", V: 2},
			zoo.Derived{Base: zoo.Base{ID: 5, Tag: "t"}, Extra: "x"},               // wire fields named like the embedded struct's fields
			&zoo.Uni{Élan: 3, Ärger: "ä", Ñu: true, Ωmega: []int32{1}, Plain: "p"}} // field names outside ASCII
		sh := &zoo.Node{Name: "shared"}
		vs = append(vs, &zoo.Node{Name: "root", A: sh, B: sh, L: []*zoo.Node{sh}},
			[]interface{}{zoo.Small{Name: "e0", N: 1}, &zoo.Five{A: 7}, zoo.Small{Name: "e2", N: 2}},
			zoo.Scalars{I: 1, I8: 2, U16: 3, F32: 1.5, S: "s", Bin: []byte{1}, T: time.Unix(1500000000, 0)})
		n := 4
		if th {
			n = 60
		}
		for i := 0; i < n; i++ {
			g.Reset()
			vs = append(vs, g.Value(reflect.TypeOf(zoo.Five{}), 0).Interface())
		}
		return vs
	}
	fmt.Fprintln(os.Stderr, "unknown alt family", fam)
	os.Exit(2)
	return nil
}

func runAltValues(fam string, seed int64, tier, out string) {
	os.MkdirAll(out, 0o755)
	f, err := os.Create(out + "/values.ndjson")
	if err != nil {
		panic(err)
	}
	defer f.Close()
	w := bufio.NewWriter(f)
	defer w.Flush()
	if fam == "fixtures" {
		_, bs := fixtures()
		vf, _ := os.Create(out + "/vectors.ndjson")
		for i, b := range bs {
			j, _ := json.Marshal(proj.M{"vid": i, "b": proj.Octets(b), "dropped": [][]int{}})
			vf.Write(append(j, '\n'))
		}
		vf.Close()
	}
	for i, v := range altValues(fam, seed, tier) {
		_, nm := extractMaps(v)
		P := proj.New(nm)
		pv := P.Project(v).JSON()
		b, _ := json.Marshal(proj.M{"id": i, "v": pv, "T": P.Types})
		w.Write(b)
		w.WriteByte('\n')
	}
}

func runAltReplay(fam string, seed int64, tier, vectors, out string, shards, only int, mode string) {
	drv.Timeout = 8 * time.Second
	vals := altValues(fam, seed, tier)
	w := newShardWriter(out, "trace", shards)
	defer w.close()
	f, err := os.Open(vectors)
	if err != nil {
		panic(err)
	}
	defer f.Close()
	sc := bufio.NewScanner(f)
	sc.Buffer(make([]byte, 1<<20), 1<<28)
	type r0T struct {
		ok  bool
		val interface{}
	}
	r0s := map[int]*r0T{}
	n := 0
	distinct := map[string]bool{}
	samples := []interface{}{}
	for sc.Scan() {
		var vec struct {
			Vid     int     `json:"vid"`
			B       []int   `json:"b"`
			Dropped [][]int `json:"dropped"`
		}
		if err := json.Unmarshal(sc.Bytes(), &vec); err != nil {
			panic(err)
		}
		id := n
		n++
		if only >= 0 && id != only {
			continue
		}
		v := vals[vec.Vid]
		tm, nm := extractMaps(v)
		if fam == "fixtures" { // the wire names the specification text uses for int arrays
			tm["[int"] = reflect.TypeOf([]int32{})
			nm["[]int32"] = "[int"
		}
		in := make([]byte, len(vec.B))
		for i, x := range vec.B {
			in[i] = byte(x)
		}
		distinct[string(in)] = true
		r0, ok := r0s[vec.Vid]
		if !ok {
			r0 = &r0T{}
			var own []byte
			var e1, e2 error
			_, p := drv.Call(func() {
				own, e1 = hessian.ToBytes(v, nm)
				if e1 == nil {
					r0.val, e2 = hessian.ToObject(own, tm)
				}
			})
			r0.ok = !p && e1 == nil && e2 == nil && !drv.Carrier(r0.val)
			r0s[vec.Vid] = r0
		}
		P := proj.New(nm)
		ev := proj.M{"ev": "alt", "mode": mode, "vid": vec.Vid, "in": vec.B, "v": P.Project(v).JSON(), "r0ok": b2i(r0.ok),
			"label": fmt.Sprintf("%s/v%d/%T", fam, vec.Vid, v)}
		if l, ok := v.([]interface{}); ok && len(l) > 0 {
			if l0, ok := l[0].([]interface{}); ok && len(l0) > 0 && &l0[0] == &l[0] {
				// a Go slice that contains itself: its variable-length rendering is the known finding KF-C03-selfListVariable
				ev["sig"] = proj.M{"shape": "list containing itself"}
			}
		}
		switch v.(type) {
		case sharedLists, *sharedLists:
			// one []int32 in a typed element slot, an interface slot and a typed field: KF-C03-sharedListUntypedFirst
			ev["sig"] = proj.M{"shape": "one list in typed and interface slots"}
		}
		if vec.Dropped == nil {
			vec.Dropped = [][]int{}
		}
		ev["dropped"] = vec.Dropped
		if r0.ok {
			ev["r0"] = P.Project(r0.val).JSON()
		} else {
			ev["r0"] = proj.M{"n": []int{}, "r": proj.M{"k": "nil"}}
		}
		var r interface{}
		var derr error
		used := len(in)
		var api string
		msg, p := drv.Call(func() {
			if id%2 == 0 {
				api = "ToObject"
				r, derr = hessian.ToObject(in, tm)
			} else {
				api = "Decoder.ReadObject"
				rd := &drv.CountingReader{B: in}
				r, derr = hessian.NewDecoder(rd, tm).ReadObject()
				used = rd.Pos
			}
		})
		ev["api"], ev["panic"], ev["err"], ev["used"], ev["carrier"] = api, b2i(p), b2i(derr != nil), used, b2i(drv.Carrier(r))
		ev["dmsg"] = msg
		if derr != nil {
			ev["dmsg"] = drv.ErrStr(derr)
		}
		if p || derr != nil || drv.Carrier(r) {
			r = nil
		}
		ev["r"] = P.Project(r).JSON()
		ev["T"] = P.Types
		if len(samples) < 3 && len(in) < 80 {
			samples = append(samples, proj.M{"label": ev["label"], "alt_encoding": vec.B, "dropped": vec.Dropped})
		}
		w.writeID(ev, id)
	}
	s := proj.M{"evaluations": n, "traces": n, "distinct_nontrivial": len(distinct), "samples": samples,
		"family_rule": "encodings of the family's values enumerated / drawn by the TLA+ reference encoder (HCodec); distinct = distinct octet sequences"}
	b, _ := json.Marshal(s)
	os.WriteFile(out+"/summary.json", b, 0o644)
}
