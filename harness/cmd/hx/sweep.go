package main

import (
	"bytes"
	"encoding/binary"
	"encoding/json"
	"fmt"
	"math"
	"math/rand"
	"os"
	"sort"
	"sync"
	"sync/atomic"

	hessian "github.com/vogo/gohessian"
	"verifharness/drv"
	"verifharness/proj"
)

// region tables exported by TLC from the specification (spec/SweepTable.tla)
type sweepKind struct {
	Change [][2]int64 `json:"change"` // [first value of a region, length of the shortest form in it]
	First  int        `json:"first"`  // length below the first change point
	Zero   []int      `json:"zero"`   // tag zero-points per form
	Wide   int        `json:"wide"`
	Tags   []int      `json:"tags"`
}
type sweepTable struct {
	Int  sweepKind `json:"int"`
	Long sweepKind `json:"long"`
	Dbl  sweepKind `json:"dbl"`
}

func (k *sweepKind) lenOf(n int64) int {
	i := sort.Search(len(k.Change), func(i int) bool { return k.Change[i][0] > n })
	if i == 0 {
		return k.First
	}
	return int(k.Change[i-1][1])
}

// the table interpreter: octets of the shortest form of n (validated by TLC on samples)
func (k *sweepKind) intOctets(n int64, fits32 bool) []byte {
	if !fits32 {
		b := make([]byte, 9)
		b[0] = byte(k.Zero[4])
		binary.BigEndian.PutUint64(b[1:], uint64(n))
		return b
	}
	switch k.lenOf(n) {
	case 1:
		return []byte{byte(int64(k.Zero[0]) + n)}
	case 2:
		return []byte{byte(int64(k.Zero[1]) + (n >> 8)), byte(n)}
	case 3:
		return []byte{byte(int64(k.Zero[2]) + (n >> 16)), byte(n >> 8), byte(n)}
	}
	b := make([]byte, 5)
	b[0] = byte(k.Zero[3])
	binary.BigEndian.PutUint32(b[1:], uint32(n))
	return b
}

func (k *sweepKind) dblOctets(v float64, f32 uint32) ([]byte, bool) {
	if v != v {
		return nil, true // NaN: 5 or 9 octets, judged by TLC on the sample only
	}
	if v == math.Trunc(v) && v >= -32768 && v <= 32767 {
		n := int64(v)
		switch k.lenOf(n) {
		case 1:
			return []byte{byte(k.Tags[int(n)])}, false
		case 2:
			return []byte{byte(k.Tags[2]), byte(n)}, false
		case 3:
			return []byte{byte(k.Tags[3]), byte(n >> 8), byte(n)}, false
		}
	}
	b := make([]byte, 5)
	b[0] = byte(k.Tags[4])
	binary.BigEndian.PutUint32(b[1:], f32)
	return b, false
}

func runSweep(kind, tablePath, tier, out string, seed int64, shards int, frac int) {
	var tbl sweepTable
	tb, err := os.ReadFile(tablePath)
	if err != nil || json.Unmarshal(tb, &tbl) != nil {
		fmt.Fprintln(os.Stderr, "bad table", err)
		os.Exit(2)
	}
	w := newShardWriter(out, "trace", shards)
	defer w.close()
	var mu sync.Mutex
	var bad []uint64
	var swept uint64
	workers := 16
	var wg sync.WaitGroup
	if frac < 1 {
		frac = 1
	}
	total := uint64(1) << 32 / uint64(frac)
	per := total / uint64(workers)
	valueOf := func(i uint64) (interface{}, []byte, bool, func(interface{}) bool) {
		switch kind {
		case "int32":
			n := int32(uint32(i * uint64(frac)))
			return n, tbl.Int.intOctets(int64(n), true), false, func(r interface{}) bool { x, ok := r.(int32); return ok && x == n }
		case "int64":
			j := i * uint64(frac)
			h, l := int64(int16(j>>16)), uint32(j&0xffff)*65537
			v := (h << 32) + int64(int32(l))
			fits := v >= math.MinInt32 && v <= math.MaxInt32
			return v, tbl.Long.intOctets(v, fits), false, func(r interface{}) bool { x, ok := r.(int64); return ok && x == v }
		default:
			bits := uint32(i * uint64(frac))
			v := float64(math.Float32frombits(bits))
			exp, nan := tbl.Dbl.dblOctets(v, bits)
			return v, exp, nan, func(r interface{}) bool {
				x, ok := r.(float64)
				return ok && (x == v || (x != x && v != v))
			}
		}
	}
	for g := 0; g < workers; g++ {
		wg.Add(1)
		go func(g int) {
			defer wg.Done()
			lo, hi := uint64(g)*per, uint64(g+1)*per
			var local []uint64
			// one encoder / decoder per goroutine, driven through the one-shot entry points
			// WriteTo / ReadFrom (they reset the instance) without per-call buffers
			enc, dec := hessian.NewEncoder(nil, nil), hessian.NewDecoder(nil, nil)
			buf := &bytes.Buffer{}
			rd := &drv.CountingReader{}
			for i := lo; i < hi; i++ {
				v, exp, skipOct, same := valueOf(i)
				buf.Reset()
				err := enc.WriteTo(buf, v)
				b := buf.Bytes()
				ok := err == nil && (skipOct || bytes.Equal(b, exp))
				if ok {
					rd.B, rd.Pos = b, 0
					r, err2 := dec.ReadFrom(rd)
					ok = err2 == nil && same(r) && rd.Pos == len(b)
				}
				if !ok && len(local) < 64 {
					local = append(local, i)
				}
			}
			atomic.AddUint64(&swept, hi-lo)
			mu.Lock()
			bad = append(bad, local...)
			mu.Unlock()
		}(g)
	}
	wg.Wait()
	// everything the interpreter disputes, every region edge +-3 and a random sample are
	// round-tripped for real and judged by TLC
	id := 0
	emit := func(label string, i uint64) {
		v, _, _, _ := valueOf(i)
		ev := drv.RoundTrip(v)
		ev["label"], ev["fam"] = label, "sweep-"+kind
		w.writeID(ev, id)
		id++
	}
	for _, i := range bad {
		emit("disputed", i)
	}
	if frac == 1 {
		edges := tbl.Int.Change
		if kind == "float32" {
			edges = nil
		}
		for _, c := range edges {
			for d := int64(-3); d <= 3; d++ {
				if kind == "int32" {
					emit("edge", uint64(uint32(int32(c[0]+d))))
				}
			}
		}
	}
	rng := rand.New(rand.NewSource(seed))
	ns := 20000
	if tier == "thorough" {
		ns = 100000
	}
	for k := 0; k < ns; k++ {
		emit("sample", uint64(rng.Int63n(int64(total))))
	}
	s := proj.M{"evaluations": int(swept), "traces": id, "distinct_nontrivial": id, "swept_values": swept, "disputed_by_table_interpreter": len(bad),
		"samples":     []interface{}{proj.M{"kind": kind, "swept": swept, "fraction": fmt.Sprintf("1/%d", frac)}},
		"family_rule": "exhaustive sweep of " + kind + " through ToBytes/ToObject against the TLC-exported region table; disputed values, region edges +-3 and a random sample are round-tripped and validated by TLC"}
	b, _ := json.Marshal(s)
	os.WriteFile(out+"/summary.json", b, 0o644)
}
