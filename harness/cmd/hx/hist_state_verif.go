//go:build verif

package main

import hessian "github.com/vogo/gohessian"

// tableSizes reads the sizes of the instance's per-stream tables through the
// accessors the repository provides under the build tag verif.
func (h *histInstance) tableSizes() (enc []int, dec []int) {
	e, d := h.enc, h.dec
	if h.ser != nil {
		e, d = hessian.VerifSerializerParts(h.ser)
	}
	enc, dec = []int{-1, -1, -1}, []int{-1, -1, -1}
	if e != nil {
		a, b, c := hessian.VerifEncoderState(e)
		enc = []int{a, b, c}
	}
	if d != nil {
		a, b, c := hessian.VerifDecoderState(d)
		dec = []int{a, b, c}
	}
	return
}

const haveTableSizes = 1
