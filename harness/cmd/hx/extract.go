package main

import (
	"bufio"
	"encoding/json"
	"fmt"
	"io"
	"os"
	"os/exec"
	"reflect"
	"sort"
	"time"

	hessian "github.com/vogo/gohessian"
	"verifharness/drv"
	"verifharness/gen"
	"verifharness/proj"
	"verifharness/zoo"
)

// extra recursive / mutually recursive / embedded / custom types for C16
type selfSlice struct {
	Kids []selfSlice
	Name string
}
type mutA struct {
	B  *mutB
	Bs []*mutB
}
type mutB struct {
	A  *mutA
	Am map[string]*mutA
}
type deepPtr struct {
	P **zoo.Small
	L *[]*zoo.Item
}
type recCustom struct {
	Name string
	Next *recCustom
	Kids []*recCustom
}

func (recCustom) HessianCodecName() string { return "com.example.Rec" }

type recCustomPair struct {
	A *recCustomB
}
type recCustomB struct {
	Back *recCustomPair
	M    map[string]*recCustomB
}

func (recCustomB) HessianCodecName() string { return "com.example.RecB" }

type nestEmpty struct {
	LL [][]zoo.Item
	ML map[string][]*zoo.Custom
	LM []map[string]zoo.Five
}

type OnlyViaEmbed struct {
	Deep zoo.Five
	List []zoo.Item
}
type embPtr struct {
	*OnlyViaEmbed
	X int32
}

type customList []*zoo.Small

func (customList) HessianCodecName() string { return "com.example.SmallList" }

type holdCustomList struct {
	Items customList
	N     int32
}

type holdIface struct {
	L []interface{}
	M map[string]interface{}
}

var extractTypes = []interface{}{
	zoo.Scalars{}, zoo.Small{}, zoo.Slices{}, zoo.Conts{}, zoo.Derived{}, zoo.CustomHolder{}, zoo.Custom{}, zoo.NamedMapHolder{},
	zoo.Node{}, zoo.FNode{}, zoo.Ping{}, zoo.Pong{}, zoo.Wide{}, zoo.Five{}, selfSlice{}, mutA{}, mutB{}, deepPtr{}, holdIface{},
	recCustom{}, recCustomPair{}, nestEmpty{}, embPtr{}, customList{}, holdCustomList{},
	[]zoo.Small{}, []*zoo.Node{}, [][]zoo.Item{}, map[string]*zoo.Ping{}, map[string][]zoo.Custom{}, zoo.Nodes{},
	keyBoard{}, map[keyCell]*keyStone{}, map[keyCell][]keyStone{},
	embCustom{}, embCustomPtr{}, ifaceChain{}, twoLists{}, eventT{}, ptrNamed{}, holdPtrNamed{}, recTree{}, recMap{}, holdRec{}, bothSlices{}, embPtrRecv{}, embPtrRecvPtr{}, mrA{}, mrB{},
}

// embedding (by value, by pointer) a type whose custom name sits on the POINTER receiver
type embPtrRecv struct {
	ptrNamed
	Name string
}
type embPtrRecvPtr struct {
	*ptrNamed
	X int32
}

// mutually recursive types, the recursive field declared before the interface field
type mrA struct {
	Line  *mrB
	Extra []interface{}
}
type mrB struct {
	Order *mrA
	Note  string
}

// []T and []*T in one value: the library gives both the wire name "[T" (known finding KF-C16-sliceNameCollision)
type bothSlices struct {
	V []zoo.Item
	P []*zoo.Item
}

// a struct that EMBEDS a custom-named struct declares no name of its own (the method is only promoted)
type embCustom struct {
	zoo.Custom
	Name string
}
type embCustomPtr struct {
	*zoo.Custom
	Name string
}

// the same struct type twice in one value, each instance holding other types behind interfaces
type ifaceChain struct {
	Items []interface{}
	Next  *ifaceChain
}

// two slices of different length over one array (special witnesses)
type twoLists struct {
	P []interface{}
	Q []interface{}
}

// a user type that shares its name with a type inside time.Time
type Location struct {
	City string
	Sub  zoo.Small
}
type eventT struct {
	When  time.Time
	Where Location
}

// a custom name declared on the pointer receiver
type ptrNamed struct{ A int32 }

func (*ptrNamed) HessianCodecName() string { return "com.example.PtrNamed" }

type holdPtrNamed struct {
	P *ptrNamed
	L []ptrNamed
}

// self-referential container types: the cycle of types passes through no struct
type recTree []recTree
type recMap map[string]recMap
type holdRec struct {
	T recTree
	M recMap
	S zoo.Small
}

// struct types that are reachable through the KEY position of a map only
type keyCell struct{ X, Y int32 }
type keyStone struct{ W int32 }
type keyBoard struct {
	M map[keyCell]*keyStone
	N map[keyCell]int32
}

// witnesses of a type: from the zero value to fully populated.
func witnesses(t reflect.Type, g *gen.G, n int) []interface{} {
	ws := []interface{}{reflect.Zero(t).Interface(), reflect.New(t).Interface()}
	if t == reflect.TypeOf(holdIface{}) {
		// what interfaces hold is only known from the witness itself
		ws = append(ws,
			holdIface{L: []interface{}{zoo.Small{Name: "s"}, &zoo.Item{K: "k"}, []interface{}{zoo.Custom{Key: "c"}}, []interface{}{&zoo.Five{A: 1}}},
				M: map[string]interface{}{"k": zoo.HI64{V: 1}, "l": []interface{}{zoo.HStr{V: "x"}}}},
			&holdIface{L: []interface{}{[]zoo.W00{{V: 1}}, map[string]interface{}{"deep": &zoo.W01{V: 2}}}})
	}
	if t == reflect.TypeOf(ifaceChain{}) {
		ws = append(ws, &ifaceChain{Items: []interface{}{zoo.Small{Name: "a"}}, Next: &ifaceChain{Items: []interface{}{zoo.Item{K: "b"}}, Next: &ifaceChain{Items: []interface{}{&zoo.Five{A: 1}}}}})
		loop := &ifaceChain{Items: []interface{}{zoo.HI64{V: 1}}}
		loop.Next = &ifaceChain{Items: []interface{}{zoo.HStr{V: "x"}}, Next: loop}
		ws = append(ws, loop)
	}
	if t == reflect.TypeOf(mrA{}) {
		// only the innermost link of the chain holds a type nothing else mentions
		for depth := 1; depth <= 4; depth++ {
			root := &mrA{}
			cur := root
			for i := 0; i < depth; i++ {
				cur.Line = &mrB{Order: &mrA{}}
				cur = cur.Line.Order
			}
			cur.Extra = []interface{}{zoo.Item{K: "deep"}}
			ws = append(ws, root)
			root2 := &mrA{Extra: []interface{}{zoo.Small{Name: "top"}}, Line: &mrB{Note: "n", Order: &mrA{Extra: []interface{}{&zoo.Five{A: 1}}, Line: &mrB{Order: &mrA{Extra: []interface{}{zoo.HI64{V: int64(depth)}}}}}}}
			ws = append(ws, root2)
		}
	}
	if t == reflect.TypeOf(twoLists{}) {
		all := []interface{}{zoo.Small{Name: "a"}, zoo.Item{K: "b"}, &zoo.Five{A: 1}}
		ws = append(ws, &twoLists{P: all[:1], Q: all}, twoLists{P: all[:0], Q: all[:2]}, &twoLists{P: all, Q: all[:1]})
	}
	for i := 0; i < n; i++ {
		g.Reset()
		g.MaxDepth = 1 + i%5
		g.MaxLen = i % 4
		g.NilP = []float64{0.9, 0.5, 0.1, 0}[i%4]
		g.Share = 0.3
		p := reflect.New(t)
		g.Fill(p.Elem(), 0)
		if i%2 == 0 {
			ws = append(ws, p.Interface())
		} else {
			ws = append(ws, p.Elem().Interface())
		}
	}
	return ws
}

type extractReq struct {
	TI   int   `json:"ti"`
	WI   int   `json:"wi"`
	N    int   `json:"n"`
	Seed int64 `json:"seed"`
}

func typeDesc(P *proj.P, m map[string]reflect.Type) [][]interface{} {
	keys := make([]string, 0, len(m))
	for k := range m {
		keys = append(keys, k)
	}
	sort.Strings(keys)
	out := [][]interface{}{}
	for _, k := range keys {
		out = append(out, []interface{}{proj.Octets([]byte(k)), P.TypeID(m[k])})
	}
	return out
}

func nameDesc(m map[string]string) [][]interface{} {
	keys := make([]string, 0, len(m))
	for k := range m {
		keys = append(keys, k)
	}
	sort.Strings(keys)
	out := [][]interface{}{}
	for _, k := range keys {
		out = append(out, []interface{}{proj.Octets([]byte(k)), proj.Octets([]byte(m[k]))})
	}
	return out
}

// customName returns the HessianCodecName of t (or "").
// customName: the wire name the type DECLARES (value or pointer receiver); a method that is only
// promoted from an embedded field is not a declaration of the embedding type (no harness type does both)
func customName(t reflect.Type) (name string) {
	if t.Kind() != reflect.Struct && t.Kind() != reflect.Map && t.Kind() != reflect.Slice {
		return ""
	}
	if t.Kind() == reflect.Struct {
		for i := 0; i < t.NumField(); i++ {
			if f := t.Field(i); f.Anonymous {
				ft := f.Type
				for ft.Kind() == reflect.Ptr {
					ft = ft.Elem()
				}
				if _, ok := reflect.New(ft).Interface().(hessian.CodecNamable); ok {
					return ""
				}
			}
		}
	}
	defer func() {
		if recover() != nil {
			name = ""
		}
	}()
	if n, ok := reflect.New(t).Interface().(hessian.CodecNamable); ok {
		return n.HessianCodecName()
	}
	return ""
}

// runExtractWorker does the extraction calls of one request in this process
// (a runaway recursion is fatal in Go, so it must not be the supervisor).
func runExtractWorker() {
	in := bufio.NewReaderSize(os.Stdin, 1<<20)
	out := bufio.NewWriter(os.Stdout)
	drv.Timeout = 20 * time.Second
	for {
		line, err := in.ReadBytes('\n')
		if len(line) > 0 {
			var rq extractReq
			if json.Unmarshal(line, &rq) == nil {
				ev := extractOne(rq)
				b, _ := json.Marshal(ev)
				out.Write(b)
				out.WriteByte('\n')
				out.Flush()
				if ev["hang"] == 1 {
					os.Exit(3)
				}
			}
		}
		if err != nil {
			return
		}
	}
}

func extractOne(rq extractReq) proj.M {
	t := reflect.TypeOf(extractTypes[rq.TI])
	g := gen.New(rq.Seed + int64(rq.TI)*131)
	w := witnesses(t, g, rq.N)[rq.WI]
	ev := proj.M{"ev": "extract", "type": t.String(), "label": fmt.Sprintf("%s/w%d", t, rq.WI)}
	var tm, tm2, tmOf map[string]reflect.Type
	var nm, nm2 map[string]string
	msg, p := drv.Call(func() {
		tm, nm = hessian.ExtractTypeNameMap(w)
		tm2 = hessian.TypeMapFrom(w)
		nm2 = hessian.NameMapFrom(w)
	})
	ev["panic"], ev["hang"], ev["msg"] = b2i(p && msg[:4] != "hang"), b2i(p && len(msg) >= 4 && msg[:4] == "hang"), msg
	msg2, p2 := drv.Call(func() { tmOf = hessian.TypeMapOf(t) })
	ev["ofpanic"] = b2i(p2)
	if p2 && len(msg2) >= 4 && msg2[:4] == "hang" {
		ev["hang"] = 1
	}
	P := proj.New(nil)
	root := P.TypeID(t)
	ev["root"] = root
	ev["tm"], ev["nm"] = typeDesc(P, tm), nameDesc(nm)
	ev["same"] = b2i(reflect.DeepEqual(typeDesc(P, tm), typeDesc(P, tm2)) && reflect.DeepEqual(nm, nm2))
	ev["tmof"] = typeDesc(P, tmOf)
	// Go type name (the key the library uses) and custom codec name of every type
	for _, d := range P.Types {
		_ = d
	}
	names := [][]int{}
	customs := [][]int{}
	for i := 0; i < len(P.Types); i++ {
		// P.Types is in id order; recover the reflect.Type by its id
		ty := P.TypeByID(i + 1)
		n := ty.Name()
		if n == "" {
			n = ty.String()
		}
		names = append(names, proj.Octets([]byte(n)))
		customs = append(customs, proj.Octets([]byte(customName(ty))))
	}
	// the dynamic types of every container / object the witness actually holds (behind interfaces too)
	dyn := map[int]bool{}
	for _, n := range P.Project(w).Nodes {
		if id, ok := n["t"].(int); ok {
			dyn[id] = true
		}
	}
	dl := []int{}
	for id := range dyn {
		dl = append(dl, id)
	}
	sort.Ints(dl)
	ev["dyn"] = dl
	names, customs = names[:0], customs[:0]
	for i := 0; i < len(P.Types); i++ {
		ty := P.TypeByID(i + 1)
		n := ty.Name()
		if n == "" {
			n = ty.String()
		}
		names = append(names, proj.Octets([]byte(n)))
		customs = append(customs, proj.Octets([]byte(customName(ty))))
	}
	ev["T"], ev["names"], ev["customs"] = P.Types, names, customs
	return ev
}

func runExtract(seed int64, tier, out string, shards, only int) {
	w := newShardWriter(out, "trace", shards)
	wrt := newShardWriter(out, "rt", shards)
	defer w.close()
	defer wrt.close()
	nw := 6
	nsecond := 3
	if tier == "thorough" {
		nw, nsecond = 60, 10
	}
	start := func() (*exec.Cmd, io.WriteCloser, *bufio.Reader) {
		cmd := exec.Command(os.Args[0], "extract-worker")
		in, _ := cmd.StdinPipe()
		o, _ := cmd.StdoutPipe()
		cmd.Stderr = io.Discard
		cmd.Start()
		return cmd, in, bufio.NewReaderSize(o, 1<<22)
	}
	cmd, in, rd := start()
	n, nrt, crashes := 0, 0, 0
	samples := []interface{}{}
	for ti := range extractTypes {
		t := reflect.TypeOf(extractTypes[ti])
		g := gen.New(seed + int64(ti)*131)
		ws := witnesses(t, g, nw)
		for wi := range ws {
			id := n
			n++
			if only >= 0 && id != only {
				continue
			}
			rq, _ := json.Marshal(extractReq{ti, wi, nw, seed})
			in.Write(rq)
			in.Write([]byte{'\n'})
			line, err := rd.ReadBytes('\n')
			var ev proj.M
			if err != nil || json.Unmarshal(line, &ev) != nil {
				crashes++
				cmd.Process.Kill()
				cmd.Wait()
				cmd, in, rd = start()
				ev = proj.M{"ev": "extract", "crash": 1, "type": t.String(), "label": fmt.Sprintf("%s/w%d", t, wi),
					"panic": 0, "hang": 0, "ofpanic": 0, "root": 1, "tm": []int{}, "nm": []int{}, "tmof": []int{}, "same": 1, "dyn": []int{},
					"T": []int{}, "names": []int{}, "customs": []int{}}
			} else {
				ev["crash"] = 0
				if ev["hang"] == float64(1) {
					cmd.Wait()
					cmd, in, rd = start()
				}
			}
			if len(samples) < 3 && wi == 0 {
				samples = append(samples, proj.M{"type": t.String(), "witness": "zero value", "nameMap": ev["nm"]})
			}
			w.writeID(ev, id)
			// maps extracted from this witness suffice for other values of the type
			// (only when the worker survived the extraction: this process must not die of it)
			okEv := ev["crash"] == 0 && fmt.Sprint(ev["hang"]) == "0" && fmt.Sprint(ev["panic"]) == "0"
			if okEv && (t.Kind() == reflect.Struct || t.Kind() == reflect.Slice || t.Kind() == reflect.Map) {
				var tm map[string]reflect.Type
				var nm map[string]string
				if _, p := drv.Call(func() { tm, nm = hessian.ExtractTypeNameMap(ws[wi]) }); p || tm == nil {
					continue
				}
				if t.String() == "main.holdIface" || t.String() == "main.deepPtr" || t.String() == "main.bothSlices" {
					// what an interface holds is not a property of the type: no witness can promise it;
					// pointers to pointers are not among the supported kinds of C01
					continue
				}
				g2 := gen.New(seed*7 + int64(id))
				for k := 0; k < nsecond; k++ {
					g2.Reset()
					g2.MaxLen = 1 + k%3
					p := reflect.New(t)
					g2.Fill(p.Elem(), 0)
					var second interface{} = p.Interface()
					if t.Kind() != reflect.Struct {
						second = p.Elem().Interface() // slices and maps travel by value
					}
					ev2 := drv.RoundTripWith(second, tm, nm)
					ev2["label"] = fmt.Sprintf("second/%s/w%d/%d", t, wi, k)
					wrt.writeID(ev2, nrt)
					nrt++
				}
			}
		}
	}
	in.Close()
	cmd.Wait()
	s := proj.M{"evaluations": n + nrt, "traces": n + nrt, "distinct_nontrivial": n, "samples": samples, "worker_crashes": crashes, "second_value_round_trips": nrt,
		"family_rule": "28 types (zoo + self-referential through slices, mutually recursive, pointer-to-pointer, interface holders) x witnesses {zero value, pointer to zero, seeded from all-nil to fully populated}; ExtractTypeNameMap / TypeMapFrom / NameMapFrom / TypeMapOf in a worker process; then round trips of independently generated values with the witness's maps"}
	b, _ := json.Marshal(s)
	os.WriteFile(out+"/summary.json", b, 0o644)
	_ = zoo.Small{}
}
