package main

import (
	"bufio"
	"bytes"
	"encoding/json"
	"fmt"
	"os"
	"reflect"
	"sort"

	hessian "github.com/vogo/gohessian"
	"verifharness/drv"
	"verifharness/proj"
	"verifharness/zoo"
)

type pairP struct {
	Tag string
	P   *zoo.Small
	L   []int32
	C   zoo.Custom // a class that goes out under a custom wire name
}

// histWorld: the concrete values behind the abstract values 1..4 of HApi.
type histWorld struct {
	p       *zoo.Small
	vals    map[int]interface{}
	bad     map[int]interface{}
	tm      map[string]reflect.Type
	nm      map[string]string
	valid   map[int][]byte
	garbage map[int][]byte
	twin    []byte
}

// smallTwin has the fields of zoo.Small in the other order; encoded under the
// wire name of Small it yields a legal stream whose definition lists n before name.
type smallTwin struct {
	N    int32
	Name string
}

func newHistWorld() *histWorld {
	w := &histWorld{p: &zoo.Small{Name: "shared", N: 5}}
	w.vals = map[int]interface{}{1: "scalar", 2: zoo.Small{Name: "a", N: 1}, 3: w.p,
		4: &pairP{Tag: "t", P: w.p, L: []int32{1, 2, 3}, C: zoo.Custom{Key: "k", Val: "v"}}, 5: []string{}, 6: []*zoo.Small{w.p, w.p}}
	w.bad = map[int]interface{}{2: []interface{}{zoo.Small{Name: "x"}, make(chan int)},
		4: []interface{}{&pairP{P: w.p}, "s", func() {}}}
	w.tm, w.nm = hessian.ExtractTypeNameMap([]interface{}{w.vals[2], w.vals[4], w.vals[5], w.vals[6]})
	w.valid, w.garbage = map[int][]byte{}, map[int][]byte{}
	// inputs for decode operations are rendered with a COPY of the name map: the caller's maps
	// must be first touched by the history itself, or a write to them would predate the snapshot
	nmCopy := map[string]string{}
	for k, v := range w.nm {
		nmCopy[k] = v
	}
	for i, v := range w.vals {
		b, _ := hessian.ToBytes(v, nmCopy)
		w.valid[i] = b
		g := append([]byte{}, b...)
		if len(g) > 6 {
			g = append(g[:len(g)-3], 0x51, 0x99, 0x72) // class definitions read, then a dangling ref and a cut-off list
		}
		w.garbage[i] = g
	}
	// a class the caller registered with a POINTER type: decoding an instance fails, and must leave the entry alone
	w.tm["PtrReg"] = reflect.TypeOf(&zoo.Item{})
	w.garbage[5], _ = hessian.ToBytes(zoo.Item{K: "k", V: 1}, map[string]string{"Item": "PtrReg"})
	// the same classes as a peer with another field order would define them (probe inputs only)
	tnm := map[string]string{"smallTwin": w.nm["Small"], "[]hx.smallTwin": "[x"}
	tb, _ := hessian.ToBytes([]interface{}{smallTwin{N: 7, Name: "twin"}, smallTwin{N: 8, Name: "twin2"}}, tnm)
	w.twin = tb
	return w
}

func (w *histWorld) snapshot() (proj.M, [][]int, []string) {
	P := proj.New(w.nm)
	all := []interface{}{}
	for i := 1; i <= 6; i++ {
		all = append(all, w.vals[i])
	}
	all = append(all, w.bad[2], w.bad[4])
	bs := [][]int{}
	for i := 1; i <= 6; i++ {
		bs = append(bs, proj.Octets(w.valid[i]), proj.Octets(w.garbage[i]))
	}
	bs = append(bs, proj.Octets(w.twin))
	ms := []string{}
	for k, v := range w.nm {
		ms = append(ms, "n:"+k+"="+v)
	}
	for k, v := range w.tm {
		ms = append(ms, "t:"+k+"="+v.String())
	}
	sort.Strings(ms)
	v := P.ProjectMany(all)
	// chan / func leaves project as "bad": fine, they only need to stay the same
	return v, bs, ms
}

type histOp struct {
	Op string `json:"op"`
	V  int    `json:"v"`
}

// histInstance drives one instance of a kind through a history.
type histInstance struct {
	kind       string
	w          *histWorld
	enc        *hessian.Encoder
	dec        *hessian.Decoder
	ser        hessian.Serializer
	buf        *bytes.Buffer       // destination of streaming writes
	rd         *drv.CountingReader // source of streaming reads
	ce         *hessian.Encoder    // companion stream encoder feeding rd
	cebuf      *bytes.Buffer
	streamingW bool
	streamingR bool
	wrote      bool
	read       bool
}

func newHistInstance(kind string, w *histWorld) *histInstance {
	h := &histInstance{kind: kind, w: w, buf: &bytes.Buffer{}, rd: &drv.CountingReader{}, cebuf: &bytes.Buffer{}}
	switch kind {
	case "enc":
		h.enc = hessian.NewEncoder(nil, w.nm)
	case "dec":
		h.dec = hessian.NewDecoder(nil, w.tm)
	default:
		h.ser = hessian.NewSerializer(w.tm, w.nm)
	}
	h.ce = hessian.NewEncoder(h.cebuf, w.nm)
	return h
}

func (h *histInstance) apply(op histOp) {
	w := h.w
	drv.Call(func() {
		switch op.Op {
		case "swrite":
			switch h.kind {
			case "enc":
				if !h.streamingW {
					h.enc.Reset(h.buf)
					h.streamingW = true
				}
				h.enc.WriteObject(w.vals[op.V])
			case "ser":
				if !h.streamingW {
					h.ser.WriteTo(h.buf, w.vals[op.V])
					h.streamingW = true
				} else {
					h.ser.Write(w.vals[op.V])
				}
			}
		case "encode":
			switch h.kind {
			case "enc":
				h.enc.Encode(w.vals[op.V])
				h.streamingW = false
			case "ser":
				h.ser.ToBytes(w.vals[op.V])
				h.streamingW = false
			}
		case "encodefail":
			switch h.kind {
			case "enc":
				h.enc.Encode(w.bad[op.V])
				h.streamingW = false
			case "ser":
				h.ser.ToBytes(w.bad[op.V])
				h.streamingW = false
			}
		case "sread":
			if h.kind == "enc" {
				return
			}
			first := !h.streamingR
			if first {
				h.cebuf.Reset()
				h.ce.Reset(h.cebuf)
				h.rd = &drv.CountingReader{}
				h.streamingR = true
			}
			h.ce.WriteObject(w.vals[op.V])
			h.rd.B = append(h.rd.B, h.cebuf.Bytes()...)
			h.cebuf.Reset()
			switch {
			case h.kind == "dec" && first:
				h.dec.ReadFrom(h.rd)
			case h.kind == "dec":
				h.dec.ReadObject()
			case first:
				h.ser.ReadFrom(h.rd)
			default:
				h.ser.Read()
			}
		case "decode", "decodegarbage":
			in := w.valid[op.V]
			if op.Op == "decodegarbage" {
				in = w.garbage[op.V]
			}
			switch h.kind {
			case "dec":
				h.dec.Decode(in)
				h.streamingR = false
			case "ser":
				h.ser.ToObject(in)
				h.streamingR = false
			}
		case "reset":
			switch h.kind {
			case "enc":
				h.buf = &bytes.Buffer{}
				h.enc.Reset(h.buf)
				h.streamingW = true
			case "dec":
				h.rd = &drv.CountingReader{}
				h.dec.Reset(h.rd)
				h.cebuf.Reset()
				h.ce.Reset(h.cebuf)
				h.streamingR = true
			}
		}
	})
}

type probeRes struct {
	out  []byte
	eerr int
	r    interface{}
	derr int
}

func (h *histInstance) probe(v interface{}, in []byte) probeRes {
	var pr probeRes
	var err error
	_, p := drv.Call(func() {
		switch h.kind {
		case "enc":
			pr.out, err = h.enc.Encode(v)
		case "ser":
			pr.out, err = h.ser.ToBytes(v)
		}
	})
	pr.eerr = b2i(p || err != nil)
	err = nil
	_, p = drv.Call(func() {
		switch h.kind {
		case "dec":
			pr.r, err = h.dec.Decode(in)
		case "ser":
			pr.r, err = h.ser.ToObject(in)
		}
	})
	pr.derr = b2i(p || err != nil)
	if pr.derr == 1 || drv.Carrier(pr.r) {
		pr.r = nil
	}
	return pr
}

func runHist(vectors, out string, shards, only int) {
	wr := newShardWriter(out, "trace", shards)
	defer wr.close()
	f, err := os.Open(vectors)
	if err != nil {
		panic(err)
	}
	defer f.Close()
	sc := bufio.NewScanner(f)
	sc.Buffer(make([]byte, 1<<20), 1<<26)
	seen := map[string]bool{}
	n := 0
	samples := []interface{}{}
	maxlen := 0
	for sc.Scan() {
		if seen[sc.Text()] {
			continue
		}
		seen[sc.Text()] = true
		var vec struct {
			H []histOp `json:"h"`
		}
		if json.Unmarshal(sc.Bytes(), &vec) != nil {
			continue
		}
		if len(vec.H) > maxlen {
			maxlen = len(vec.H)
		}
		for _, kind := range []string{"enc", "dec", "ser"} {
			id := n
			n++
			if only >= 0 && id != only {
				continue
			}
			w := newHistWorld()
			vb, bb, mb := w.snapshot()
			// every probe gets its own used instance (the history is replayed for it), so that one
			// probe cannot repair what the history left behind before the next probe looks
			mkUsed := func() *histInstance {
				u := newHistInstance(kind, w)
				for _, op := range vec.H {
					u.apply(op)
				}
				return u
			}
			// the sizes of the instance's tables after every operation of the history (hooked builds)
			states := []proj.M{}
			{
				u := newHistInstance(kind, w)
				for _, op := range vec.H {
					u.apply(op)
					es, ds := u.tableSizes()
					states = append(states, proj.M{"e": es, "d": ds})
				}
			}
			probes := []proj.M{}
			{
				// a stream whose definition of Small lists the fields in the other order
				P := proj.New(w.nm)
				pu := mkUsed().probe(w.vals[1], w.twin)
				pf := newHistInstance(kind, w).probe(w.vals[1], w.twin)
				probes = append(probes, proj.M{"eu": proj.Octets(pu.out), "ef": proj.Octets(pf.out), "eerru": pu.eerr, "eerrf": pf.eerr,
					"du": P.Project(pu.r).JSON(), "df": P.Project(pf.r).JSON(), "derru": pu.derr, "derrf": pf.derr})
			}
			for pv := 1; pv <= 6; pv++ {
				fresh := newHistInstance(kind, w)
				P := proj.New(w.nm)
				pu := mkUsed().probe(w.vals[pv], w.valid[pv])
				pf := fresh.probe(w.vals[pv], w.valid[pv])
				probes = append(probes, proj.M{"eu": proj.Octets(pu.out), "ef": proj.Octets(pf.out), "eerru": pu.eerr, "eerrf": pf.eerr,
					"du": P.Project(pu.r).JSON(), "df": P.Project(pf.r).JSON(), "derru": pu.derr, "derrf": pf.derr,
					"hasv": b2i(kind != "dec"), "v": P.Project(w.vals[pv]).JSON(), "T": P.Types})
				// a failing probe: garbage in, error-ness must agree as well
				gu := mkUsed().probe(w.bad[2], w.garbage[pv])
				gf := newHistInstance(kind, w).probe(w.bad[2], w.garbage[pv])
				probes = append(probes, proj.M{"eu": []int{}, "ef": []int{}, "eerru": gu.eerr, "eerrf": gf.eerr,
					"du": P.Project(gu.r).JSON(), "df": P.Project(gf.r).JSON(), "derru": gu.derr, "derrf": gf.derr})
			}
			va, ba, ma := w.snapshot()
			ev := proj.M{"ev": "hist", "kind": kind, "ops": vec.H, "probes": probes, "vb": vb, "va": va, "bb": bb, "ba": ba, "mb": mb, "ma": ma, "states": states, "hooked": haveTableSizes,
				"label": fmt.Sprintf("%s/len%d", kind, len(vec.H))}
			if len(samples) < 3 && len(vec.H) >= 3 {
				samples = append(samples, proj.M{"kind": kind, "history": vec.H})
			}
			wr.writeID(ev, id)
		}
	}
	s := proj.M{"evaluations": n, "traces": n, "distinct_nontrivial": n, "samples": samples, "longest_history": maxlen,
		"family_rule": "every history of HApi up to the enumeration bound (TLC) and simulated longer ones, replayed on an Encoder, a Decoder and a Serializer; then 13 probes (6 values ok + 6 failing + a stream with a permuted class definition) on the used and on a fresh instance; distinct = distinct (history, kind)"}
	b, _ := json.Marshal(s)
	os.WriteFile(out+"/summary.json", b, 0o644)
}
