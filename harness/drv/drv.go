// Package drv calls the public API of gohessian and records what happened.
package drv

import (
	"fmt"
	"reflect"
	"strings"

	hessian "github.com/vogo/gohessian"
	"verifharness/proj"
)

type silent struct{}

func (silent) Info(args ...interface{})                  {}
func (silent) Warn(args ...interface{})                  {}
func (silent) Error(args ...interface{})                 {}
func (silent) Debug(args ...interface{})                 {}
func (silent) Infof(format string, args ...interface{})  {}
func (silent) Warnf(format string, args ...interface{})  {}
func (silent) Errorf(format string, args ...interface{}) {}
func (silent) Debugf(format string, args ...interface{}) {}
func (silent) Printf(format string, args ...interface{}) {}
func (silent) Println(args ...interface{})               {}

// Silence installs a logger that prints nothing (the default one writes
// DEBUG lines to stdout).
func Silence() { hessian.SetLogger(silent{}) }

var hessianPkg = reflect.TypeOf(hessian.ClassDef{}).PkgPath()
var reflectValueType = reflect.TypeOf(reflect.Value{})

// Carrier reports whether x is an internal carrier type of the library.
func Carrier(x interface{}) bool {
	if x == nil {
		return false
	}
	t := reflect.TypeOf(x)
	if t == reflectValueType {
		return true
	}
	for t.Kind() == reflect.Ptr {
		t = t.Elem()
	}
	return t.PkgPath() == hessianPkg
}

// Call runs f, turning a panic into (recovered message, true).
func Call(f func()) (msg string, panicked bool) {
	defer func() {
		if r := recover(); r != nil {
			msg = fmt.Sprint(r)
			panicked = true
		}
	}()
	f()
	return
}

func errStr(err error) string {
	if err == nil {
		return ""
	}
	s := err.Error()
	if len(s) > 200 {
		s = s[:200]
	}
	return strings.Map(func(r rune) rune {
		if r < 32 || r > 126 || r == '"' || r == '\\' {
			return '?'
		}
		return r
	}, s)
}

// RoundTrip encodes v with the name map extracted from it, decodes the
// octets with the type map extracted from it and records both steps.
func RoundTrip(v interface{}) proj.M {
	var typMap map[string]reflect.Type
	var nameMap map[string]string
	ev := proj.M{"ev": "rt"}
	if msg, p := Call(func() { typMap, nameMap = hessian.ExtractTypeNameMap(v) }); p {
		ev["xpanic"] = 1
		ev["xmsg"] = errStr(fmt.Errorf("%s", msg))
		nameMap = map[string]string{}
		typMap = map[string]reflect.Type{}
	} else {
		ev["xpanic"] = 0
	}
	P := proj.New(nameMap)
	ev["v"] = P.Project(v).JSON()
	var out []byte
	var err error
	msg, p := Call(func() { out, err = hessian.ToBytes(v, nameMap) })
	ev["epanic"] = b2i(p)
	ev["eerr"] = b2i(err != nil)
	ev["emsg"] = errStr(err) + ascii(msg)
	ev["out"] = proj.Octets(out)
	if p || err != nil {
		ev["dskip"] = 1
		ev["T"] = P.Types
		return ev
	}
	ev["dskip"] = 0
	var r interface{}
	msg, p = Call(func() { r, err = hessian.ToObject(out, typMap) })
	ev["dpanic"] = b2i(p)
	ev["derr"] = b2i(err != nil)
	ev["dmsg"] = errStr(err) + ascii(msg)
	ev["carrier"] = b2i(Carrier(r))
	if p || err != nil || Carrier(r) {
		ev["r"] = proj.M{"n": []int{}, "r": proj.M{"k": "nil"}}
	} else {
		ev["r"] = P.Project(r).JSON()
	}
	ev["T"] = P.Types
	return ev
}

func ascii(s string) string { return errStr(fmt.Errorf("%s", s)) }

func b2i(b bool) int {
	if b {
		return 1
	}
	return 0
}
