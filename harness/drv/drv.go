// Package drv calls the public API of gohessian and records what happened.
package drv

import (
	"bytes"
	"fmt"
	"io"
	"reflect"
	"runtime"
	"strings"
	"time"
	"unicode/utf8"

	hessian "github.com/vogo/gohessian"
	"verifharness/proj"
	"verifharness/zoo"
)

type silent struct{}

func (silent) Info(args ...interface{})                  {}
func (silent) Warn(args ...interface{})                  {}
func (silent) Error(args ...interface{})                 {}
func (silent) Debug(args ...interface{})                 {}
func (silent) Infof(format string, args ...interface{})  {}
func (silent) Warnf(format string, args ...interface{})  {}
func (silent) Errorf(format string, args ...interface{}) {}
func (silent) Debugf(format string, args ...interface{}) {}
func (silent) Printf(format string, args ...interface{}) {}
func (silent) Println(args ...interface{})               {}

// Silence installs a logger that prints nothing (the default one writes
// DEBUG lines to stdout).
func Silence() { hessian.SetLogger(silent{}) }

var hessianPkg = reflect.TypeOf(hessian.ClassDef{}).PkgPath()
var reflectValueType = reflect.TypeOf(reflect.Value{})

// Carrier reports whether x is an internal carrier type of the library.
func Carrier(x interface{}) bool {
	if x == nil {
		return false
	}
	t := reflect.TypeOf(x)
	if t == reflectValueType {
		return true
	}
	for t.Kind() == reflect.Ptr {
		t = t.Elem()
	}
	return t.PkgPath() == hessianPkg
}

// Timeout bounds one library call; a call that does not return within it is
// recorded as a hang (the goroutine is abandoned).
var Timeout = 20 * time.Second

// Hung is set once any call hung: later timings in this process are unreliable.
var Hung bool

// Call runs f, turning a panic into (recovered message, true).  A call that
// does not return within Timeout yields ("hang", true).
func Call(f func()) (msg string, panicked bool) {
	type res struct {
		msg string
		p   bool
	}
	ch := make(chan res, 1)
	go func() {
		var r res
		defer func() {
			if x := recover(); x != nil {
				r.msg = fmt.Sprint(x)
				r.p = true
			}
			ch <- r
		}()
		f()
	}()
	select {
	case r := <-ch:
		return r.msg, r.p
	case <-time.After(Timeout):
		Hung = true
		return "hang: call did not return within " + Timeout.String(), true
	}
}

// ErrStr renders an error as a short ASCII string.
func ErrStr(err error) string { return errStr(err) }

func errStr(err error) string {
	if err == nil {
		return ""
	}
	s := err.Error()
	if len(s) > 200 {
		s = s[:200]
	}
	return strings.Map(func(r rune) rune {
		if r < 32 || r > 126 || r == '"' || r == '\\' {
			return '?'
		}
		return r
	}, s)
}

// RoundTrip encodes v with the name map extracted from it, decodes the
// octets with the type map extracted from it and records both steps.
func RoundTrip(v interface{}) proj.M {
	var typMap map[string]reflect.Type
	var nameMap map[string]string
	xp, xm := 0, ""
	if msg, p := Call(func() { typMap, nameMap = hessian.ExtractTypeNameMap(v) }); p {
		xp, xm = 1, errStr(fmt.Errorf("%s", msg))
		nameMap = map[string]string{}
		typMap = map[string]reflect.Type{}
	}
	rtPlain++
	rt := reflect.TypeOf(v)
	for rt != nil && rt.Kind() == reflect.Ptr {
		rt = rt.Elem()
	}
	if rtPlain%7 == 3 && rt != nil && rt.Kind() == reflect.Struct { // (a list at top level has no declared type to be converted to)
		// a name map that names the classes only: every list travels untyped and is converted to the
		// declared slice type on arrival
		for k, n := range nameMap {
			if strings.HasPrefix(k, "[") || strings.HasPrefix(n, "[") {
				delete(nameMap, k)
			}
		}
	}
	ev := RoundTripWith(v, typMap, nameMap)
	ev["xpanic"], ev["xmsg"] = xp, xm
	return ev
}

var rtPlain int

var rtCount int
var sharedEnc = hessian.NewEncoder(nil, nil)
var sharedDec = hessian.NewDecoder(nil, nil)

type gcWriter struct {
	buf bytes.Buffer
	n   int
}

func (g *gcWriter) Write(p []byte) (int, error) {
	g.n++
	if g.n%8 == 0 && g.n <= 512 {
		runtime.GC()
	}
	return g.buf.Write(p)
}

// RoundTripWith is RoundTrip with caller-supplied maps.  The decode entry point rotates:
// ToObject, a Decoder over a reader that delivers a few octets per Read, a Serializer.
func RoundTripWith(v interface{}, typMap map[string]reflect.Type, nameMap map[string]string) proj.M {
	return RoundTripAs(v, v, typMap, nameMap)
}

// RoundTripAs hands enc to the encoder and compares the result with v (enc is v behind further
// pointers: the library follows them, the result has the type of v).
func RoundTripAs(v, enc interface{}, typMap map[string]reflect.Type, nameMap map[string]string) proj.M {
	ev := proj.M{"ev": "rt", "xpanic": 0}
	P := proj.New(nameMap)
	ev["v"] = P.Project(v).JSON()
	var out []byte
	var err error
	rtCount++
	evia := "ToBytes"
	msg, p := Call(func() {
		if rtCount%3 == 2 {
			// one long-lived encoder for the whole run: the maps are registered per value, and a
			// primer message (nothing / only an empty list / a string / a struct) goes first
			evia = "reused Encoder.Encode"
			sharedEnc.RegisterNameMap(nameMap)
			switch (rtCount / 3) % 4 {
			case 1:
				sharedEnc.Encode([]string{})
			case 2:
				sharedEnc.Encode("primer")
			case 3:
				if (rtCount/12)%2 == 0 {
					sharedEnc.Encode(struct{ A int }{7}) // a struct type without a name
				} else {
					sharedEnc.Encode(zoo.HI32{V: 7})
				}
			}
			out, err = sharedEnc.Encode(enc)
			return
		}
		if rtCount%3 == 1 && (rtCount/3)%3 == 0 {
			// a garbage collection every few writes: whatever the encoder remembers about the values
			// already written (copies of structs passed by value included) must stay valid
			evia = "Encoder.WriteTo, collecting garbage"
			gw := &gcWriter{}
			err = hessian.NewEncoder(nil, nameMap).WriteTo(gw, enc)
			out = gw.buf.Bytes()
			if err != nil {
				out = nil
			}
			return
		}
		out, err = hessian.ToBytes(enc, nameMap)
	})
	ev["evia"] = evia
	ev["epanic"] = b2i(p)
	ev["eerr"] = b2i(err != nil)
	ev["emsg"] = errStr(err) + ascii(msg)
	ev["out"] = proj.Octets(out)
	if p || err != nil {
		ev["dskip"] = 1
		ev["T"] = P.Types
		return ev
	}
	ev["dskip"] = 0
	var r interface{}
	via := "ToObject"
	msg, p = Call(func() {
		switch rtCount % 5 {
		case 2: // one long-lived decoder for the whole run
			via = "reused Decoder.Decode"
			sharedDec.RegisterTypeMap(typMap)
			r, err = sharedDec.Decode(out)
		case 1: // a source that delivers one to three octets at a time
			via = "Decoder.ReadFrom(choppy)"
			r, err = hessian.NewDecoder(nil, typMap).ReadFrom(&ChoppyReader{B: out, Max: 1 + rtCount%3})
		case 3:
			via = "Serializer.ToObject"
			r, err = hessian.NewSerializer(typMap, nameMap).ToObject(out)
		default:
			r, err = hessian.ToObject(out, typMap)
		}
	})
	ev["via"] = via
	ev["dpanic"] = b2i(p)
	ev["derr"] = b2i(err != nil)
	ev["dmsg"] = errStr(err) + ascii(msg)
	ev["carrier"] = b2i(Carrier(r))
	if p || err != nil || Carrier(r) {
		ev["r"] = proj.M{"n": []int{}, "r": proj.M{"k": "nil"}}
	} else {
		ev["r"] = P.Project(r).JSON()
	}
	ev["T"] = P.Types
	return ev
}

func ascii(s string) string { return errStr(fmt.Errorf("%s", s)) }

func b2i(b bool) int {
	if b {
		return 1
	}
	return 0
}

// CountingReader is a ByteRuneReader over a byte slice with no read-ahead:
// Pos is exactly the number of octets the decoder has pulled.
type CountingReader struct {
	B   []byte
	Pos int
}

func (r *CountingReader) Read(p []byte) (int, error) {
	if r.Pos >= len(r.B) {
		return 0, io.EOF
	}
	n := copy(p, r.B[r.Pos:])
	r.Pos += n
	return n, nil
}

func (r *CountingReader) ReadRune() (rune, int, error) {
	if r.Pos >= len(r.B) {
		return 0, 0, io.EOF
	}
	c, sz := utf8.DecodeRune(r.B[r.Pos:])
	r.Pos += sz
	return c, sz, nil
}

// ChoppyReader is a ByteRuneReader that hands out at most Max octets per Read
// (a network connection delivering in small pieces); ReadRune never splits a
// code point.
type ChoppyReader struct {
	B   []byte
	Pos int
	Max int
}

func (r *ChoppyReader) Read(p []byte) (int, error) {
	if r.Pos >= len(r.B) {
		return 0, io.EOF
	}
	if len(p) > r.Max {
		p = p[:r.Max]
	}
	n := copy(p, r.B[r.Pos:])
	r.Pos += n
	return n, nil
}

func (r *ChoppyReader) ReadRune() (rune, int, error) {
	if r.Pos >= len(r.B) {
		return 0, 0, io.EOF
	}
	c, sz := utf8.DecodeRune(r.B[r.Pos:])
	r.Pos += sz
	return c, sz, nil
}

// Stream writes vals one after another through one encoder (api "enc") or one
// serializer (api "ser") into one buffer, reads them back through one
// decoder / serializer over a counting reader, and records offsets.
func Stream(api string, vals []interface{}, gc bool) proj.M {
	ev := proj.M{"ev": "stream", "api": api}
	var typMap map[string]reflect.Type
	var nameMap map[string]string
	all := make([]interface{}, len(vals))
	copy(all, vals)
	if msg, p := Call(func() { typMap, nameMap = hessian.ExtractTypeNameMap(all) }); p {
		ev["xpanic"] = 1
		ev["xmsg"] = ascii(msg)
		nameMap, typMap = map[string]string{}, map[string]reflect.Type{}
	} else {
		ev["xpanic"] = 0
	}
	P := proj.New(nameMap)
	ev["v"] = P.ProjectMany(vals)
	buf := &bytes.Buffer{}
	ends, werr := []int{}, []int{}
	var enc *hessian.Encoder
	var ser hessian.Serializer
	if api == "enc" {
		enc = hessian.NewEncoder(buf, nameMap)
	} else {
		ser = hessian.NewSerializer(typMap, nameMap)
	}
	wpanic := 0
	for i, v := range vals {
		var err error
		_, p := Call(func() {
			switch {
			case api == "enc":
				err = enc.WriteObject(v)
			case i == 0:
				err = ser.WriteTo(buf, v)
			default:
				err = ser.Write(v)
			}
		})
		if p {
			wpanic = 1
		}
		ends = append(ends, buf.Len())
		werr = append(werr, b2i(err != nil || p))
		if gc {
			runtime.GC()
		}
	}
	out := append([]byte{}, buf.Bytes()...)
	ev["out"], ev["ends"], ev["werr"], ev["wpanic"] = proj.Octets(out), ends, werr, wpanic
	rd := &CountingReader{B: out}
	var dec *hessian.Decoder
	if api == "enc" {
		dec = hessian.NewDecoder(rd, typMap)
	}
	rs := make([]interface{}, 0, len(vals))
	used, rerr, carrier := []int{}, []int{}, []int{}
	emsg := ""
	for i := range vals {
		var r interface{}
		var err error
		msg, p := Call(func() {
			switch {
			case api == "enc":
				r, err = dec.ReadObject()
			case i == 0:
				r, err = ser.ReadFrom(rd)
			default:
				r, err = ser.Read()
			}
		})
		bad := p || err != nil
		if bad && emsg == "" {
			emsg = errStr(err) + ascii(msg)
		}
		c := Carrier(r)
		if bad || c {
			r = nil
		}
		rs = append(rs, r)
		used = append(used, rd.Pos)
		rerr = append(rerr, b2i(bad))
		carrier = append(carrier, b2i(c))
	}
	ev["r"] = P.ProjectMany(rs)
	ev["used"], ev["rerr"], ev["carrier"], ev["dmsg"] = used, rerr, carrier, emsg
	ev["T"] = P.Types
	return ev
}

// StreamOn runs one stream on each of objs (pooled encoders, decoders or
// serializers held at the same time), INTERLEAVED round by round, and
// records each stream like Stream does.  vals[i] are the values of stream i.
func StreamOn(kind string, objs []interface{}, vals [][]interface{}, typMap map[string]reflect.Type, nameMap map[string]string) []proj.M {
	n := len(objs)
	bufs := make([]*bytes.Buffer, n)
	rds := make([]*CountingReader, n)
	encs := make([]*hessian.Encoder, n)
	decs := make([]*hessian.Decoder, n)
	sers := make([]hessian.Serializer, n)
	evs := make([]proj.M, n)
	ends, werr, used, rerr, carrier := make([][]int, n), make([][]int, n), make([][]int, n), make([][]int, n), make([][]int, n)
	rs := make([][]interface{}, n)
	for i, o := range objs {
		bufs[i], rds[i] = &bytes.Buffer{}, &CountingReader{}
		switch kind {
		case "enc":
			encs[i] = o.(*hessian.Encoder)
			decs[i] = hessian.NewDecoder(rds[i], typMap)
			encs[i].Reset(bufs[i])
		case "dec":
			encs[i] = hessian.NewEncoder(bufs[i], nameMap)
			decs[i] = o.(*hessian.Decoder)
			decs[i].Reset(rds[i])
		default:
			sers[i] = o.(hessian.Serializer)
		}
		evs[i] = proj.M{"ev": "stream", "api": "pooled-" + kind, "xpanic": 0, "wpanic": 0}
	}
	rounds := 0
	for _, v := range vals {
		if len(v) > rounds {
			rounds = len(v)
		}
	}
	for k := 0; k < rounds; k++ {
		for i := range objs {
			if k >= len(vals[i]) {
				continue
			}
			var err error
			_, p := Call(func() {
				switch {
				case sers[i] == nil:
					err = encs[i].WriteObject(vals[i][k])
				case k == 0:
					err = sers[i].WriteTo(bufs[i], vals[i][k])
				default:
					err = sers[i].Write(vals[i][k])
				}
			})
			ends[i] = append(ends[i], bufs[i].Len())
			werr[i] = append(werr[i], b2i(err != nil || p))
			rds[i].B = append([]byte{}, bufs[i].Bytes()...)
		}
		for i := range objs {
			if k >= len(vals[i]) {
				continue
			}
			var r interface{}
			var err error
			_, p := Call(func() {
				switch {
				case sers[i] == nil:
					r, err = decs[i].ReadObject()
				case k == 0:
					r, err = sers[i].ReadFrom(rds[i])
				default:
					r, err = sers[i].Read()
				}
			})
			bad := p || err != nil
			c := Carrier(r)
			if bad || c {
				r = nil
			}
			rs[i] = append(rs[i], r)
			used[i] = append(used[i], rds[i].Pos)
			rerr[i] = append(rerr[i], b2i(bad))
			carrier[i] = append(carrier[i], b2i(c))
		}
	}
	for i := range objs {
		P := proj.New(nameMap)
		evs[i]["v"] = P.ProjectMany(vals[i])
		evs[i]["out"], evs[i]["ends"], evs[i]["werr"] = proj.Octets(bufs[i].Bytes()), ends[i], werr[i]
		evs[i]["r"] = P.ProjectMany(rs[i])
		evs[i]["used"], evs[i]["rerr"], evs[i]["carrier"], evs[i]["dmsg"] = used[i], rerr[i], carrier[i], ""
		evs[i]["T"] = P.Types
	}
	return evs
}
