package drv

import (
	"errors"
	"reflect"

	hessian "github.com/vogo/gohessian"
	"verifharness/proj"
)

// FaultWriter answers the K-th Write (1-based) with a fault of the given
// kind and logs every call: [requested, accepted, error flag].
type FaultWriter struct {
	K    int
	Kind string // "once" | "fromk" | "short" | "shorterr" | "" (never)
	N    int
	Log  [][3]int
}

var errInjected = errors.New("injected write fault")

func (w *FaultWriter) Write(p []byte) (int, error) {
	w.N++
	hit := w.Kind != "" && (w.N == w.K || (w.Kind == "fromk" && w.N > w.K))
	n, e := len(p), 0
	var err error
	if hit {
		switch w.Kind {
		case "once", "fromk":
			n, err, e = 0, errInjected, 1
		case "short":
			if n > 0 {
				n--
			} else { // nothing to cut short: report an error instead
				err, e = errInjected, 1
			}
		case "shorterr":
			if n > 0 {
				n--
			}
			err, e = errInjected, 1
		}
	}
	w.Log = append(w.Log, [3]int{len(p), n, e})
	return n, err
}

// FaultAPIs are the encode entry points that take a destination writer.
var FaultAPIs = []string{"Encoder.WriteTo", "Encoder.WriteObject", "Serializer.WriteTo", "Serializer.Write"}

// FaultRun encodes v through api into a writer faulting at write k.
func FaultRun(api string, v interface{}, nameMap map[string]string, typMap map[string]reflect.Type, k int, kind string) proj.M {
	w := &FaultWriter{K: k, Kind: kind}
	var err error
	skip := 0
	_, p := Call(func() {
		switch api {
		case "Encoder.WriteTo":
			err = hessian.NewEncoder(nil, nameMap).WriteTo(w, v)
		case "Encoder.WriteObject":
			err = hessian.NewEncoder(w, nameMap).WriteObject(v)
		case "Serializer.WriteTo":
			err = hessian.NewSerializer(typMap, nameMap).WriteTo(w, v)
		case "Serializer.Write":
			// a clean first value, then the value under test on the same stream
			s := hessian.NewSerializer(typMap, nameMap)
			pre := &FaultWriter{}
			if e0 := s.WriteTo(pre, int32(1)); e0 != nil {
				err = e0
				return
			}
			skip = 0
			// continue on the faulting writer: Write keeps the stream state, so swap the writer by a new WriteTo of a trivial value is not possible;
			// instead fault indices are shifted by the writes of the first value
			w2 := &FaultWriter{K: k + 1, Kind: kind}
			s2 := hessian.NewSerializer(typMap, nameMap)
			if e0 := s2.WriteTo(w2, int32(1)); e0 != nil {
				err = e0
				w.Log = w2.Log
				return
			}
			err = s2.Write(v)
			w.Log = w2.Log
		}
	})
	ws := make([][]int, len(w.Log))
	for i, x := range w.Log {
		ws[i] = []int{x[0], x[1], x[2]}
	}
	_ = skip
	return proj.M{"ev": "fault", "api": api, "k": k, "kind": kind, "writes": ws, "ret": b2i(err != nil), "panic": b2i(p),
		"clean": b2i(kind == "")}
}
