module verifharness

go 1.23.5

require github.com/vogo/gohessian v0.0.0

require github.com/vogo/logger v1.0.0 // indirect

replace github.com/vogo/gohessian => /repo
