// Package gen builds Go values of the zoo types from a seeded source.
// Generators only choose inputs; they never judge results.
package gen

import (
	"math"
	"math/rand"
	"reflect"
	"time"
)

var timeType = reflect.TypeOf(time.Time{})

// G is a seeded structural generator.
type G struct {
	R        *rand.Rand
	MaxLen   int     // container length bound
	MaxDepth int     // pointer / nesting depth bound
	Share    float64 // probability to reuse an already built pointer to a struct
	ShareC   float64 // probability to reuse an already built slice / map (aliasing of containers)
	NilP     float64 // probability of a nil pointer / nil container
	pool     map[reflect.Type][]reflect.Value
	WideInt  bool // allow int/uint outside the 32-bit window
}

func New(seed int64) *G {
	return &G{R: rand.New(rand.NewSource(seed)), MaxLen: 4, MaxDepth: 4, Share: 0.3, NilP: 0.2,
		pool: map[reflect.Type][]reflect.Value{}}
}

func (g *G) Reset() { g.pool = map[reflect.Type][]reflect.Value{} }

var IntEdges = []int64{0, 1, -1, 47, 48, -16, -17, 2047, 2048, -2048, -2049, 262143, 262144, -262144, -262145,
	15, 16, -8, -9, 127, 128, -128, -129, 255, 256, 32767, 32768, -32768, -32769, 65535, 65536,
	math.MaxInt32, math.MaxInt32 - 1, math.MinInt32, math.MinInt32 + 1, int64(math.MaxInt32) + 1, int64(math.MinInt32) - 1,
	math.MaxUint32, int64(math.MaxUint32) + 1, math.MaxInt64, math.MaxInt64 - 1, math.MinInt64, math.MinInt64 + 1}

// Int64 draws from edges, uniform and log-uniform.
func (g *G) Int64() int64 {
	switch g.R.Intn(4) {
	case 0:
		return IntEdges[g.R.Intn(len(IntEdges))] + int64(g.R.Intn(7)-3)
	case 1:
		return int64(g.R.Uint64())
	case 2:
		sh := uint(g.R.Intn(64))
		return int64(g.R.Uint64()) >> sh
	default:
		return int64(g.R.Intn(200) - 100)
	}
}

func clampInt(v int64, k reflect.Kind, wide bool) int64 {
	switch k {
	case reflect.Int8:
		return int64(int8(v))
	case reflect.Int16:
		return int64(int16(v))
	case reflect.Int32:
		return int64(int32(v))
	case reflect.Int:
		if wide {
			return v
		}
		return int64(int32(v))
	}
	return v
}

func clampUint(v uint64, k reflect.Kind, wide bool) uint64 {
	switch k {
	case reflect.Uint8:
		return uint64(uint8(v))
	case reflect.Uint16:
		return uint64(uint16(v))
	case reflect.Uint32:
		return uint64(uint32(v))
	}
	return v
}

var FloatEdges = []float64{0, 1, -1, 2, 127, 128, -128, -129, 32767, 32768, -32768, -32769, 0.5, -0.5, 1.5, 0.1,
	math.MaxFloat32, math.SmallestNonzeroFloat32, math.MaxFloat64, math.SmallestNonzeroFloat64,
	math.Inf(1), math.Inf(-1), math.Copysign(0, -1), 1e10, -1e10, 4294967296, 65536, 1 << 53, 3.14159}

func (g *G) Float64() float64 {
	switch g.R.Intn(5) {
	case 0:
		return FloatEdges[g.R.Intn(len(FloatEdges))]
	case 1:
		return math.Float64frombits(g.R.Uint64())
	case 2:
		return float64(math.Float32frombits(g.R.Uint32()))
	case 3:
		return float64(g.R.Intn(140001) - 70000)
	default:
		return g.R.NormFloat64() * 1000
	}
}

var runeClasses = [][2]rune{{0x20, 0x7e}, {0x80, 0x7ff}, {0x800, 0xd7ff}, {0xe000, 0xfffd}, {0x10000, 0x10ffff}}

// U+FFFD is what decoders return for damaged input, but it is also an ordinary character
var specialRunes = []rune{0xfffd, 0xfffd, 0xfeff, 0, 0x7f, 0x80, 0x85, 0x7ff, 0x800, 0xd7ff, 0xe000, 0xfffe, 0xffff, 0x10000, 0x10ffff}

// Rune of the given width class (0: ASCII .. 4: 4-octet); class <0: mixed.
func (g *G) Rune(class int) rune {
	if class < 0 {
		if g.R.Intn(24) == 0 { // code points that code tends to treat specially
			return specialRunes[g.R.Intn(len(specialRunes))]
		}
		class = g.R.Intn(len(runeClasses))
	}
	c := runeClasses[class]
	return c[0] + rune(g.R.Int63n(int64(c[1]-c[0]+1)))
}

func (g *G) String(n int, class int) string {
	rs := make([]rune, n)
	for i := range rs {
		rs[i] = g.Rune(class)
	}
	return string(rs)
}

func (g *G) smallString() string {
	switch g.R.Intn(6) {
	case 0:
		return ""
	case 1:
		return g.String(1+g.R.Intn(3), 0)
	case 2:
		return g.String(g.R.Intn(40), -1)
	default:
		return g.String(1+g.R.Intn(8), 0)
	}
}

// Time draws an instant in years 1..9999.
func (g *G) Time() time.Time {
	const minSec, maxSec = -62135596800, 253402300799
	switch g.R.Intn(6) {
	case 0:
		return time.Time{}
	case 1: // whole second inside the 32-bit window
		return time.Unix(int64(int32(g.R.Uint32())), 0)
	case 2: // whole millisecond anywhere
		s := minSec + g.R.Int63n(maxSec-minSec)
		return time.Unix(s, int64(g.R.Intn(1000))*1000000)
	case 3: // finer than a millisecond
		s := minSec + g.R.Int63n(maxSec-minSec)
		return time.Unix(s, int64(g.R.Intn(1000000000)))
	case 4:
		return time.Unix(int64(g.R.Intn(4000000000))-2000000000, int64(g.R.Intn(1000))*1000000)
	default:
		return time.Unix(1500000000+int64(g.R.Intn(100000000)), int64(g.R.Intn(1000))*1000000)
	}
}

func (g *G) length() int {
	if g.MaxLen <= 0 {
		return 0
	}
	return g.R.Intn(g.MaxLen + 1)
}

// Value builds a value of type t.
func (g *G) Value(t reflect.Type, depth int) reflect.Value {
	v := reflect.New(t).Elem()
	g.fill(v, depth)
	return v
}

// Fill fills an addressable value in place.
func (g *G) Fill(v reflect.Value, depth int) { g.fill(v, depth) }

func (g *G) fill(v reflect.Value, depth int) {
	t := v.Type()
	switch t.Kind() {
	case reflect.Bool:
		v.SetBool(g.R.Intn(2) == 0)
	case reflect.Int, reflect.Int8, reflect.Int16, reflect.Int32, reflect.Int64:
		v.SetInt(clampInt(g.Int64(), t.Kind(), g.WideInt))
	case reflect.Uint, reflect.Uint8, reflect.Uint16, reflect.Uint32, reflect.Uint64:
		v.SetUint(clampUint(uint64(g.Int64()), t.Kind(), g.WideInt))
	case reflect.Float32:
		f := g.Float64()
		v.SetFloat(float64(float32(f)))
	case reflect.Float64:
		v.SetFloat(g.Float64())
	case reflect.String:
		v.SetString(g.smallString())
	case reflect.Struct:
		if t == timeType {
			v.Set(reflect.ValueOf(g.Time()))
			return
		}
		for i := 0; i < t.NumField(); i++ {
			if t.Field(i).PkgPath == "" {
				g.fill(v.Field(i), depth)
			}
		}
	case reflect.Ptr:
		if depth >= g.MaxDepth || g.R.Float64() < g.NilP {
			return
		}
		if ps := g.pool[t]; len(ps) > 0 && g.R.Float64() < g.Share {
			v.Set(ps[g.R.Intn(len(ps))])
			return
		}
		p := reflect.New(t.Elem())
		if t.Elem().Kind() == reflect.Struct {
			g.pool[t] = append(g.pool[t], p) // before filling: allows cycles
		}
		g.fill(p.Elem(), depth+1)
		v.Set(p)
	case reflect.Slice:
		if t.Elem().Kind() == reflect.Uint8 {
			n := g.R.Intn(20)
			if g.R.Intn(5) == 0 {
				n = 0
			}
			b := make([]byte, n)
			g.R.Read(b)
			v.SetBytes(b)
			return
		}
		if depth >= g.MaxDepth || g.R.Float64() < g.NilP {
			return
		}
		if ps := g.pool[t]; len(ps) > 0 && g.R.Float64() < g.ShareC {
			s := ps[g.R.Intn(len(ps))]
			if s.Len() > 1 && g.R.Intn(3) == 0 {
				s = s.Slice(0, 1+g.R.Intn(s.Len()-1)) // a shorter slice over the same array: another list
			}
			v.Set(s)
			return
		}
		n := g.length()
		s := reflect.MakeSlice(t, n, n)
		for i := 0; i < n; i++ {
			g.fill(s.Index(i), depth+1)
		}
		if n > 0 {
			g.pool[t] = append(g.pool[t], s)
		}
		v.Set(s)
	case reflect.Map:
		if depth >= g.MaxDepth || g.R.Float64() < g.NilP {
			return
		}
		if ps := g.pool[t]; len(ps) > 0 && g.R.Float64() < g.ShareC {
			v.Set(ps[g.R.Intn(len(ps))])
			return
		}
		n := g.length()
		m := reflect.MakeMapWithSize(t, n)
		for i := 0; i < n; i++ {
			k := reflect.New(t.Key()).Elem()
			g.fill(k, depth+1)
			e := reflect.New(t.Elem()).Elem()
			g.fill(e, depth+1)
			m.SetMapIndex(k, e)
		}
		if m.Len() > 0 {
			g.pool[t] = append(g.pool[t], m)
		}
		v.Set(m)
	}
}
