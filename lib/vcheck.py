"""Orchestrator for the gohessian TLA+ conformance checks (see DESIGN.md)."""
import argparse, concurrent.futures as cf, hashlib, json, os, re, shutil, subprocess, sys, tempfile, time

VERIF = os.path.dirname(os.path.dirname(os.path.abspath(__file__)))
# a run against another tree than /repo (VERIF_REPO: seeded or benign changes on a private worktree) keeps its
# evidence and replay files out of /verif: what is committed there comes from runs against /repo itself
OUTROOT = VERIF if not os.environ.get("VERIF_REPO") else os.path.join("/var/tmp", "verif_alt_" + re.sub(r"[^A-Za-z0-9]", "_", os.environ["VERIF_REPO"]))
SPEC = os.path.join(VERIF, "spec")
HARNESS = os.path.join(VERIF, "harness")
REPO = os.environ.get("VERIF_REPO", "/repo")   # the tree under test (a snapshot for background runs)
NCPU = os.cpu_count() or 8

GOENV = dict(os.environ, GOFLAGS="-mod=mod", GOPROXY="off", GOSUMDB="off", GOTOOLCHAIN="local",
             CGO_ENABLED=os.environ.get("CGO_ENABLED", "1"))


class Infra(Exception):
    """Infrastructure failure: never a verdict (exit 2)."""


def log(*a):
    print(*a, flush=True)


# ----------------------------------------------------------------------------
# building the harness against /repo's current working tree
def build_harness(tmp, race=False):
    hdir = HARNESS
    if REPO != "/repo":
        # background runs on a snapshot: same harness sources, module replaced by the snapshot
        hdir = os.path.join(tmp, "harness_src")
        if not os.path.exists(hdir):
            shutil.copytree(HARNESS, hdir)
            gm = open(os.path.join(hdir, "go.mod")).read().replace("=> /repo", "=> " + REPO)
            open(os.path.join(hdir, "go.mod"), "w").write(gm)
    shutil.copy(os.path.join(REPO, "go.sum"), os.path.join(hdir, "go.sum"))
    out = os.path.join(tmp, "hx-race" if race else "hx")
    cmd = ["go", "build", "-tags", "verif", "-o", out]
    if race:
        cmd.append("-race")
    cmd.append("./cmd/hx")
    p = subprocess.run(cmd, cwd=hdir, env=GOENV, capture_output=True, text=True)
    if p.returncode != 0:
        raise Infra("harness build failed:\n" + p.stdout + p.stderr)
    return out


def run_hx(hx, args, timeout=3600):
    p = subprocess.run([hx] + args, env=GOENV, capture_output=True, text=True, timeout=timeout)
    if p.returncode != 0:
        raise Infra("hx %s failed (rc %d):\n%s\n%s" % (" ".join(args), p.returncode, p.stdout[-3000:], p.stderr[-3000:]))
    return p.stdout


# ----------------------------------------------------------------------------
# TLC
STATES_RE = re.compile(r"(\d+) states generated, (\d+) distinct states found")


def spec_dir(tmp, name):
    d = os.path.join(tmp, name)
    os.makedirs(d, exist_ok=True)
    for f in os.listdir(SPEC):
        if f.endswith(".tla") or f.endswith(".cfg"):
            dst = os.path.join(d, f)
            if not os.path.exists(dst):
                os.symlink(os.path.join(SPEC, f), dst)
    return d


def run_tlc(d, module, cfg=None, workers=1, timeout=3600, heap="3g", extra=()):
    env = dict(os.environ)
    env["JAVA_TOOL_OPTIONS"] = "-Xss512m -Xmx%s" % heap
    cmd = ["timeout", str(timeout), "tlc", "-workers", str(workers), "-metadir", os.path.join(d, "md_" + (cfg or module)),
           "-config", (cfg or module) + ".cfg"] + list(extra) + [module + ".tla"]
    t0 = time.time()
    p = subprocess.run(cmd, cwd=d, env=env, capture_output=True, text=True)
    out = p.stdout + p.stderr
    m = None
    for m in STATES_RE.finditer(out):
        pass
    gen, dist = (int(m.group(1)), int(m.group(2))) if m else (0, 0)
    return dict(rc=p.returncode, out=out, generated=gen, distinct=dist, wall=time.time() - t0)


REJ_RE = re.compile(r'^<<"REJ", (-?\d+), "([^"]+)", (.*)>>$')
DONE_RE = re.compile(r'^<<"DONE", (\d+)>>$')


def validate_shards(tmp, module, shards, label, timeout=None, heap="3g"):
    """Run the trace specification over every shard (one TLC per shard)."""
    timeout = timeout or (9000 if os.environ.get("VERIF_TIER") == "thorough" else 3000)
    def one(i_path):
        i, path = i_path
        n = sum(1 for _ in open(path))
        if n == 0:
            return dict(rejs=[], events=0, generated=0, distinct=0, wall=0.0)
        d = spec_dir(tmp, "%s_%02d" % (label, i))
        tp = os.path.join(d, "trace.ndjson")
        if os.path.lexists(tp):
            os.remove(tp)
        os.symlink(path, tp)
        r = run_tlc(d, module, workers=1, timeout=timeout, heap=heap)
        rejs, done = [], None
        for line in r["out"].splitlines():
            m = REJ_RE.match(line)
            if m:
                rejs.append((int(m.group(1)), m.group(2), m.group(3)))
            m = DONE_RE.match(line)
            if m:
                done = int(m.group(1))
        if done != n or "No error has been found" not in r["out"]:
            raise Infra("trace validation of %s did not complete (done=%s of %d, rc=%d):\n%s" % (path, done, n, r["rc"], r["out"][-4000:]))
        r.update(rejs=rejs, events=n)
        return r
    with cf.ThreadPoolExecutor(max_workers=NCPU) as ex:
        rs = list(ex.map(one, enumerate(shards)))
    return dict(rejs=[x for r in rs for x in r["rejs"]], events=sum(r["events"] for r in rs),
                generated=sum(r["generated"] for r in rs), distinct=sum(r["distinct"] for r in rs))


def model_check(tmp, module, cfg, expect="ok", workers=None, timeout=3000, heap="8g", extra=()):
    """expect: 'ok' or the name of the invariant/property a negative config must violate."""
    d = spec_dir(tmp, "mc_" + cfg)
    r = run_tlc(d, module, cfg, workers=workers or NCPU, timeout=timeout, heap=heap, extra=extra)
    out = r["out"]
    if expect == "ok":
        if "No error has been found" not in out:
            raise Infra("model checking %s/%s failed:\n%s" % (module, cfg, out[-4000:]))
    else:
        if ("Invariant %s is violated" % expect) not in out and ("property %s" % expect) not in out.lower() and expect not in out:
            raise Infra("negative configuration %s/%s did not violate %s:\n%s" % (module, cfg, expect, out[-3000:]))
    return r


VEC_RE = re.compile(r'^<<"VEC", (".*")>>$')


def tlc_vectors(tmp, module, cfgname, cfgtext, outpath, workers=1, timeout=1800, extra=(), append=False):
    """Run a generator configuration; collect the JSON vectors it prints."""
    d = spec_dir(tmp, "gen_" + cfgname)
    with open(os.path.join(d, cfgname + ".cfg"), "w") as f:
        f.write(cfgtext)
    r = run_tlc(d, module, cfgname, workers=workers, timeout=timeout, extra=extra)
    n = 0
    with open(outpath, "a" if append else "w") as f:
        for line in r["out"].splitlines():
            m = VEC_RE.match(line)
            if m:
                f.write(json.loads(m.group(1)) + "\n")
                n += 1
    if n == 0:
        raise Infra("generator %s/%s printed no vectors:\n%s" % (module, cfgname, r["out"][-3000:]))
    r["vectors"] = n
    return r


# ----------------------------------------------------------------------------
# known findings
def load_known():
    path = os.path.join(VERIF, "known_findings.jsonl")
    ks = []
    if os.path.exists(path):
        for line in open(path):
            line = line.strip()
            if line and not line.startswith("#") and not line.startswith("fixed:"):
                ks.append(json.loads(line))
    return ks


def match_known(known, prop, code, ev):
    """A known finding matches by property, reason code and every key of its
    'match' object being equal to the event's 'sig' entry of the same name."""
    sig = ev.get("sig", {}) if isinstance(ev, dict) else {}
    for k in known:
        if k.get("status") != "known" or k.get("property") != prop or k.get("code") != code:
            continue
        if all(sig.get(a) == b for a, b in k.get("match", {}).items()):
            return k
    return None


# ----------------------------------------------------------------------------
def read_events(shards, ids):
    want, got = set(ids), {}
    for path in shards:
        for line in open(path):
            if not want:
                return got
            # cheap pre-filter on the id field
            e = json.loads(line)
            if e.get("id") in want:
                got[e["id"]] = e
                want.discard(e["id"])
    return got


def shard_files(d, base="trace"):
    return sorted(os.path.join(d, f) for f in os.listdir(d) if f.startswith(base + ".") and f.endswith(".ndjson"))


class Run:
    """Accumulates what one check invocation covered."""

    def __init__(self, prop, tier, seed):
        self.prop, self.tier, self.seed = prop, tier, seed
        self.t0 = time.time()
        self.states = 0
        self.transitions = 0
        self.traces = 0
        self.events = 0
        self.evaluations = 0
        self.distinct = 0
        self.samples = []
        self.mc = []
        self.stages = []
        self.violations = []   # (code, detail, replay path)
        self.known = []        # KNOWN-FINDING lines
        self.assumptions = []
        self.extra = {}

    def add_mc(self, name, r, what):
        self.states += r["distinct"]
        self.transitions += r["generated"]
        self.mc.append(dict(config=name, distinct_states=r["distinct"], states_generated=r["generated"], wall_s=round(r["wall"], 1), checks=what))

    def add_validation(self, name, v, summary):
        self.states += v["distinct"]
        self.transitions += v["generated"]
        self.events += v["events"]
        self.traces += summary.get("traces", v["events"])
        self.evaluations += summary.get("evaluations", v["events"])
        self.distinct += summary.get("distinct_nontrivial", 0)
        self.samples += summary.get("samples", [])[:3]
        self.stages.append(dict(stage=name, events=v["events"], rejections=len(v["rejs"]), **{k: summary[k] for k in summary if k not in ("samples",)}))


def write_replay(prop, recipe, ev, codes):
    os.makedirs(os.path.join(OUTROOT, "replays"), exist_ok=True)
    body = dict(property=prop, recipe=recipe, codes=codes, event=ev)
    h = hashlib.sha1(json.dumps([prop, recipe, codes], sort_keys=True).encode()).hexdigest()[:12]
    path = os.path.join(OUTROOT, "replays", "%s-%s.json" % (prop, h))
    with open(path, "w") as f:
        json.dump(body, f)
    return path


def judge(run, known, rejs, shards, recipe):
    """Turn rejections into KNOWN-FINDING / VIOLATION entries."""
    # "diag." codes are diagnostics recorded in the evidence, never a verdict
    diag = [r for r in rejs if r[1].startswith("diag.")]
    if diag:
        run.extra.setdefault("diagnostics", []).extend("%s at event %d" % (c, i) for (i, c, _d) in diag[:20])
    rejs = [r for r in rejs if not r[1].startswith("diag.")]
    if not rejs:
        return
    by_ev = {}
    for (eid, code, detail) in rejs:
        by_ev.setdefault(eid, []).append((code, detail))
    evs = read_events(shards, list(by_ev))
    seen_known = {}
    if os.environ.get("VERIF_TRIAGE"):
        hist = {}
        for eid, cds in by_ev.items():
            ev = evs.get(eid, {})
            lab = re.sub(r"[0-9]+", "#", str(ev.get("label", "?")))
            for (code, detail) in cds:
                hist.setdefault((code, lab), []).append(eid)
        for (code, lab), ids in sorted(hist.items(), key=lambda x: -len(x[1])):
            ev = evs.get(ids[0], {})
            with open("/tmp/triage_%s_%s_%s.json" % (run.prop, code, re.sub(r"[^A-Za-z0-9]", "_", lab)[:30]), "w") as tf:
                json.dump(ev, tf)
            log("TRIAGE %5d %-16s %-28s e.g. id=%d %s %s | %s" % (len(ids), code, lab, ids[0], ev.get("label"), (ev.get("emsg", "") + " " + ev.get("dmsg", ""))[:100], bytes(ev.get("out", [])[:40])))
    for eid, cds in sorted(by_ev.items()):
        ev = evs.get(eid, {})
        unknown = []
        for (code, detail) in cds:
            k = match_known(known, run.prop, code, ev)
            if k is not None:
                seen_known.setdefault(k["id"], [k, 0])[1] += 1
            else:
                unknown.append((code, detail))
        if unknown and len(run.violations) < 20:
            rp = write_replay(run.prop, dict(recipe, event=eid), ev, unknown)
            run.violations.append((unknown[0][0], unknown[0][1], rp, len(unknown)))
        elif unknown:
            run.violations.append((unknown[0][0], unknown[0][1], None, len(unknown)))
    for kid, (k, n) in seen_known.items():
        run.known.append("KNOWN-FINDING: property=%s %s (%s; %d events this run)" % (run.prop, k["what"], k["id"], n))


def finish(run, level, technique_note):
    ev = dict(
        property_id=run.prop, tier=run.tier, seed=run.seed, level=level,
        coverage=dict(
            states=max(run.states, 0), transitions=max(run.transitions, 0),
            traces_validated_against_impl=run.traces,
            evaluations=max(run.evaluations, 0), distinct_nontrivial=run.distinct,
            rule=technique_note, samples=run.samples[:6] or ["(none)"],
            model_checking=run.mc, conformance_stages=run.stages,
            known_findings_seen=run.known, **run.extra),
        assumptions=run.assumptions, wall_s=round(time.time() - run.t0, 1),
        violations=len(run.violations))
    os.makedirs(os.path.join(OUTROOT, "evidence"), exist_ok=True)
    with open(os.path.join(OUTROOT, "evidence", run.prop + ".json"), "w") as f:
        json.dump(ev, f, indent=1)
    for k in run.known:
        log(k)
    if run.violations:
        for (code, detail, rp, n) in run.violations[:20]:
            if rp:
                log("VIOLATION property=%s replay=%s  (%s %s)" % (run.prop, rp, code, detail))
        log("%s: %d violating events" % (run.prop, len(run.violations)))
        return 1
    log("%s: ok  (%d events validated, %d states, %.0fs)" % (run.prop, run.events, run.states, time.time() - run.t0))
    return 0


# ----------------------------------------------------------------------------
# generic conformance stage: hx writes shards + summary.json, TLC validates
def conformance(run, tmp, hx, known, name, hxargs, module="TraceCodec", timeout=3000, heap="3g"):
    out = os.path.join(tmp, "tr_" + name)
    args = list(hxargs) + ["-seed", str(run.seed), "-tier", run.tier, "-out", out, "-shards", str(NCPU)]
    run_hx(hx, args)
    shards = shard_files(out)
    v = validate_shards(tmp, module, shards, name, timeout=timeout, heap=heap)
    summary = {}
    sp = os.path.join(out, "summary.json")
    if os.path.exists(sp):
        summary = json.load(open(sp))
    run.add_validation(name, v, summary)
    judge(run, known, v["rejs"], shards, dict(hx=hxargs, seed=run.seed, tier=run.tier, module=module))
    return v


from plans import PLANS  # noqa: E402  (per-property plans)


def main(argv):
    ap = argparse.ArgumentParser()
    ap.add_argument("prop")
    ap.add_argument("--tier", default=os.environ.get("VERIF_TIER", "quick"))
    ap.add_argument("--seed", type=int, default=int(os.environ.get("VERIF_SEED", "1") or 1))
    ap.add_argument("--replay")
    ap.add_argument("--keep", action="store_true")
    a = ap.parse_args(argv)
    if a.tier not in ("quick", "thorough"):
        a.tier = "quick"
    os.environ["VERIF_TIER"] = a.tier   # read by validate_shards for its time limit
    if a.prop not in PLANS:
        log("no check for", a.prop)
        return 2
    tmp = tempfile.mkdtemp(prefix="vchk_%s_" % a.prop, dir=os.environ.get("VERIF_TMP", "/var/tmp"))
    try:
        run = Run(a.prop, a.tier, a.seed)
        if a.replay:
            return replay(a, tmp)
        return PLANS[a.prop](run, tmp)
    except Infra as e:
        log("INFRASTRUCTURE FAILURE (no verdict):", str(e)[:6000])
        return 2
    except subprocess.TimeoutExpired as e:
        log("INFRASTRUCTURE FAILURE (timeout, no verdict):", e)
        return 2
    finally:
        if not a.keep:
            shutil.rmtree(tmp, ignore_errors=True)
        else:
            log("kept", tmp)


def replay(a, tmp):
    """Re-run the single event of a replay file against the real code and validate it again.
    Generated inputs are regenerated from their recipe (family, seed, tier, event id); inputs that
    came from TLC (alternative encodings, histories, schedules, mutants) are rebuilt from the
    recorded event itself."""
    body = json.load(open(a.replay))
    rec, ev = body["recipe"], body.get("event", {})
    hx = build_harness(tmp)
    out = os.path.join(tmp, "replay")
    hxargs = list(rec["hx"])
    vec = os.path.join(tmp, "replay_vector.ndjson")
    kind = ev.get("ev")
    one = None
    if kind == "alt":
        one = dict(vid=ev["vid"], b=ev["in"], dropped=ev.get("dropped", []))
    elif kind == "hist":
        one = dict(h=ev["ops"])
    elif kind == "poolseq":
        held, h = {}, []
        for o in ev["ops"][:len(ev["ops"]) - ev["size"] - 1]:        # without the final drain
            if o["op"] == "get":
                held.setdefault(o["g"], []).append(o["obj"])
                h.append(dict(op="get", g=o["g"], j=0))
            else:
                j = held[o["g"]].index(o["obj"]) + 1
                held[o["g"]].pop(j - 1)
                h.append(dict(op="ret", g=o["g"], j=j))
        one = dict(size=ev["size"], h=h)
    elif kind == "conc":
        one = dict(s=ev["sched"])
    elif kind == "hostile" and ev.get("hasin") == 1:
        one = dict(b=ev["in"], wf=ev.get("wf", -1), mut="replay", at=0)
    only = rec.get("event")
    if one is not None:
        with open(vec, "w") as f:
            f.write(json.dumps(one) + "\n")
        if "-vectors" in hxargs:
            hxargs[hxargs.index("-vectors") + 1] = vec
        else:
            hxargs += ["-vectors", vec]
        only = None
    args = hxargs + ["-seed", str(rec["seed"]), "-tier", rec["tier"], "-out", out, "-shards", "1"]
    if only is not None:
        args += ["-only", str(only)]
    run_hx(hx, args)
    shards = shard_files(out, rec.get("shard", "trace"))
    if kind == "poolseq" or kind == "hist" or kind == "conc":
        # one vector is replayed on every pool / instance kind: keep the events of the recorded kind
        keep = os.path.join(tmp, "replay_keep.ndjson")
        with open(keep, "w") as f:
            for line in open(shards[0]):
                e = json.loads(line)
                if e.get("kind", ev.get("kind")) == ev.get("kind") and e.get("label", "").split("/var")[-1:] == ev.get("label", "").split("/var")[-1:]:
                    f.write(line)
        shards = [keep]
    v = validate_shards(tmp, rec.get("module", "TraceCodec"), shards, "replay")
    for r in v["rejs"]:
        log("REJ", r)
    log("replayed %s event: %d rejections now (recorded: %s)" % (kind, len(v["rejs"]), body["codes"]))
    return 1 if v["rejs"] else 0
