"""Per-property plans: which TLA+ configurations are model-checked and which
conformance stages bind them to the code."""
import re
import vcheck as V

OWN = {
    "C01": r"^(C01|C06\.carrier|C16\.panic)",
    "C02": r"^(C02|C07\.exact|C08\.exact|C09|C10\.instant|C01\.bool)",
    "C07": r"^(C07|C01|C02\.wellformed|C02\.kind)",
    "C08": r"^(C08|C01|C02\.wellformed|C02\.kind)",
    "C09": r"^(C09|C01|C02\.wellformed|C02\.kind|C02\.absent)",
    "C10": r"^(C10|C01|C02\.wellformed|C02\.kind|C02\.absent)",
}


def owned(prop, rejs):
    rx = re.compile(OWN[prop])
    return [r for r in rejs if rx.search(r[1])]


def codec_stage(run, tmp, hx, known, name, fam, module="TraceCodec"):
    out = V.os.path.join(tmp, "tr_" + name)
    hxargs = ["codec", "-family", fam]
    V.run_hx(hx, hxargs + ["-seed", str(run.seed), "-tier", run.tier, "-out", out, "-shards", str(V.NCPU)])
    shards = V.shard_files(out)
    v = V.validate_shards(tmp, module, shards, name)
    summary = V.json.load(open(V.os.path.join(out, "summary.json")))
    mine = owned(run.prop, v["rejs"])
    summary["rejections_owned_by_other_properties"] = len(v["rejs"]) - len(mine)
    v["rejs"] = mine
    run.add_validation(name, v, summary)
    V.judge(run, known, mine, shards, dict(hx=hxargs, seed=run.seed, tier=run.tier, module=module))


def scalar_mc(run, tmp):
    r = V.model_check(tmp, "MCScalar", "MCScalar")
    run.add_mc("MCScalar", r, "every legal form of every int/long/double/date in the stated finite sets decodes to its value; minimal form is minimal; tag partition")


def plan_codec(fam, mc=None, note=""):
    def f(run, tmp):
        known = V.load_known()
        hx = V.build_harness(tmp)
        if mc:
            mc(run, tmp)
        codec_stage(run, tmp, hx, known, fam, fam)
        return V.finish(run, "model_checking", note)
    return f


PLANS = {
    "C01": plan_codec("c01", None, "round trips of generated zoo values recorded as rt events and validated by TLC against TraceCodec (SameCodes)"),
    "C02": plan_codec("c01", None, "encoder output of generated zoo values parsed by the TLA+ reference decoder (ParseWhole) and related to the value by Denotes"),
    "C07": plan_codec("c07", None, "integer round trips validated by TLC: exactness and shortest form per wire kind"),
    "C08": plan_codec("c08", None, "double round trips validated by TLC against the octet-level IEEE classification"),
    "C09": plan_codec("c09", None, "string/binary round trips validated by TLC: payload, character counts, chunk boundaries"),
    "C10": plan_codec("c10", None, "timestamp round trips validated by TLC at millisecond resolution"),
}
