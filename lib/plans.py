"""Per-property plans: which TLA+ configurations are model-checked and which
conformance stages bind them to the code."""
import re
import vcheck as V

OWN = {
    "C11": r"^(C11|C02\.(wellformed|ref|class|fields|count|kind))",
    "C01": r"^(C01|C06\.carrier|C16\.panic)",
    "C02": r"^(C02|C07\.exact|C08\.exact|C09|C10\.instant|C01\.bool)",
    "C07": r"^(C07|C01|C02\.wellformed|C02\.kind)",
    "C08": r"^(C08|C01|C02\.wellformed|C02\.kind)",
    "C09": r"^(C09|C01|C02\.wellformed|C02\.kind|C02\.absent|C03)",
    "C10": r"^(C10|C01|C02\.wellformed|C02\.kind|C02\.absent)",
    "C04": r"^(C02\.ref|C02\.absent|C02\.wellformed|C02\.kind|C01)",
    "C06": r"^(C06|C02\.(?!dateUnit)|C07\.exact|C08\.exact|C09|C10\.instant|C16\.panic)",
    "C15": r"^(C15|trace)",
    "C03": r"^(C03|C06\.carrier)",
    "C05": r"^(C05|C03\.(panic|error|consumed)|C06\.carrier)",
    "C13": r"^(C13|C02|C01\.encpanic|C01\.encerr)",
}


def owned(prop, rejs):
    rx = re.compile(OWN[prop])
    # C01.genericMap (an unnamed map type comes back as a generic map) is the recorded finding of C01 alone:
    # the other properties that look at round trips do not speak about the dynamic type of maps
    return [r for r in rejs if rx.search(r[1]) and (prop == "C01" or r[1] != "C01.genericMap")]


def codec_stage(run, tmp, hx, known, name, fam, module="TraceCodec", selftest=True):
    out = V.os.path.join(tmp, "tr_" + name)
    hxargs = ["codec", "-family", fam]
    V.run_hx(hx, hxargs + ["-seed", str(run.seed), "-tier", run.tier, "-out", out, "-shards", str(V.NCPU)])
    shards = V.shard_files(out)
    v = V.validate_shards(tmp, module, shards, name)
    summary = V.json.load(open(V.os.path.join(out, "summary.json")))
    mine = owned(run.prop, v["rejs"])
    summary["rejections_owned_by_other_properties"] = len(v["rejs"]) - len(mine)
    v["rejs"] = mine
    run.add_validation(name, v, summary)
    V.judge(run, known, mine, shards, dict(hx=hxargs, seed=run.seed, tier=run.tier, module=module))
    if selftest:
        binding_selftest(run, tmp, shards, module, name, set(r[0] for r in v["rejs"]))


def corrupt(e, i):
    """Corrupt one recorded field of a good event; returns (event, expected reason-code prefix) or None."""
    ev = e.get("ev")
    J = V.json
    e = J.loads(J.dumps(e))
    if ev == "rt":
        if e.get("dskip") != 0 or e.get("derr") != 0 or e.get("dpanic") != 0:
            return None
        if i % 2 == 0:
            e["out"] = e["out"] + [78]
            return e, "C02.wellformed"
        e["r"] = {"n": [], "r": {"k": "int", "g": "int8", "b": [0, 0, 0, 0, 0, 0, 0, 77]}}
        return e, "C01."
    if ev == "stream":
        if not e["used"] or any(e["rerr"]) or any(e["werr"]):
            return None
        if i % 2 == 0:
            e["used"][-1] += 1
            return e, "C06.offset"
        e["ends"][0] += 1
        return e, "C06.framing"
    if ev == "alt":
        if e["err"] or e["panic"]:
            return None
        e["r"] = {"n": [], "r": {"k": "int", "g": "int8", "b": [0, 0, 0, 0, 0, 0, 0, 77]}}
        return e, "C0"
    if ev == "hist":
        if i % 2 == 0 and e.get("hooked") == 1 and e["states"] and e["kind"] != "dec":
            e["states"][-1]["e"][2] += 1          # one ordinal too many in the recorded encoder table
            return e, "diag.state"
        e["probes"][0]["eu"] = e["probes"][0]["eu"] + [1]
        return e, "C11.encodeBytes"
    if ev == "fault":
        if e["clean"] == 1 or e["ret"] == 0:
            return None
        e["ret"] = 0
        return e, "C15.swallowed"
    if ev == "hostile":
        e["panic"] = 1
        return e, "C14.panic"
    if ev == "poolseq":
        gets = [k for k, o in enumerate(e["ops"]) if o["op"] == "get"]
        if len(gets) < 2:
            return None
        e["ops"][gets[1]]["obj"] = e["ops"][gets[0]]["obj"] if e["ops"][gets[1]]["obj"] != e["ops"][gets[0]]["obj"] else 99
        return e, "C17."
    if ev == "conc":
        e["outs"][0] = e["outs"][0] + [0]
        return e, "C12.octets"
    if ev == "concload":
        e["calls"][0][1] = e["calls"][0][1] + [0]
        return e, "C12.octets"
    if ev == "extract":
        if e.get("crash") or not e["tm"]:
            return None
        e["tm"] = []
        return e, "C16.closed"
    return None


def binding_selftest(run, tmp, shards, module, name, already):
    """Demonstrate the binding: corrupt recorded fields of good events and
    require TLC to reject exactly those events (controls stay accepted)."""
    if run.violations:   # the tree is already condemned by real events: the verdict must not be masked by exit 2
        return
    evs = []
    for path in shards:
        for line in open(path):
            if len(line) > 60000:
                continue
            e = V.json.loads(line)
            if e.get("id") in already:
                continue
            evs.append(e)
            if len(evs) >= 18:
                break
        if len(evs) >= 18:
            break
    want, outev = {}, []
    for i, e in enumerate(evs):
        if i % 3 == 2:
            want[e["id"]] = None
            outev.append(e)
            continue
        c = corrupt(e, i)
        if c is None:
            continue
        want[e["id"]] = c[1]
        outev.append(c[0])
    if not any(want.values()):
        return
    d = V.os.path.join(tmp, "selftest_" + name)
    V.os.makedirs(d, exist_ok=True)
    tp = V.os.path.join(d, "trace.00.ndjson")
    with open(tp, "w") as f:
        for e in outev:
            f.write(V.json.dumps(e) + "\n")
    v = V.validate_shards(tmp, module, [tp], "selftest_" + name)
    got = {}
    for (eid, code, _d) in v["rejs"]:
        got.setdefault(eid, []).append(code)
    for eid, pref in want.items():
        codes = [c for c in got.get(eid, []) if not c.startswith("C02.dateUnit") and c != "C01.genericMap"]   # recorded findings
        if pref is None and codes:
            raise V.Infra("binding self-test: control event %d rejected: %s" % (eid, codes))
        if pref is not None and not any(c.startswith(pref) for c in codes):
            raise V.Infra("binding self-test: corrupted event %d (%s) not rejected: %s" % (eid, pref, codes))
    n = sum(1 for x in want.values() if x)
    run.extra.setdefault("binding_selftest", []).append(dict(stage=name, corrupted=n, rejected_as_expected=n, controls_accepted=sum(1 for x in want.values() if x is None)))


def scalar_mc(run, tmp):
    r = V.model_check(tmp, "MCScalar", "MCScalar_thorough" if run.tier == "thorough" else "MCScalar")
    run.add_mc("MCScalar", r, "every legal form of every int/long/double/date in the stated finite sets decodes to its value; minimal form is minimal; tag partition")


def fault_mc(run, tmp):
    r = V.model_check(tmp, "HFault", "HFault")
    run.add_mc("HFault", r, "design: every write answer inspected => Surfaces, StopsAfterFault, Terminates for <=12 writes, every fault position")
    r = V.model_check(tmp, "HFault", "HFault_neg", expect="Surfaces")
    run.add_mc("HFault_neg", r, "negative configuration (a write result is dropped) violates Surfaces: the invariant is not vacuous")


def sweep_stage(run, tmp, hx, known, kinds):
    """Exhaustive (thorough) / strided (quick) 2^32-point sweeps driven by region tables that TLC exports from the specification."""
    d = V.spec_dir(tmp, "sweeptable")
    open(V.os.path.join(d, "SweepTable.cfg"), "w").close()
    table = V.os.path.join(tmp, "sweeptable.json")
    r = V.tlc_vectors(tmp, "SweepTable", "SweepTable", "", table, workers=1, timeout=600)
    run.add_mc("SweepTable", r, "region tables (change points of IntMinLen / LongMinLen / DoubleMinLen, tag zero-points) exported from the specification's operators")
    for kind in kinds:
        out = V.os.path.join(tmp, "tr_sweep_" + kind)
        frac = "512" if run.tier != "thorough" else ("16" if kind == "int64" else "1")
        hxargs = ["sweep", "-family", kind, "-vectors", table, "-frac", frac]
        V.run_hx(hx, hxargs + ["-seed", str(run.seed), "-tier", run.tier, "-out", out, "-shards", str(V.NCPU)], timeout=7200)
        shards = V.shard_files(out)
        v = V.validate_shards(tmp, "TraceCodec", shards, "sweep_" + kind)
        summary = V.json.load(open(V.os.path.join(out, "summary.json")))
        mine = owned(run.prop, v["rejs"])
        v["rejs"] = mine
        disputed = summary.get("disputed_by_table_interpreter", 0)
        run.add_validation("sweep_" + kind, v, summary)
        V.judge(run, known, mine, shards, dict(hx=hxargs, seed=run.seed, tier=run.tier, module="TraceCodec"))
        if disputed and not mine:
            raise V.Infra("the table interpreter disputed %d values that TLC accepts: interpreter or table wrong (no verdict)" % disputed)
        if run.tier == "thorough":
            run.extra["sweep_" + kind] = dict(swept_values=summary.get("swept_values"), exhaustive=(frac == "1"))


def stream_mc(run, tmp):
    hx = V.build_harness(tmp)
    hstream_mc(run, tmp, hx, "small", [
        ("HStream", "ok", "reader and writer of one stream as concurrent small-step machines over the small universe: the decoder is never ahead of the encoder's tables, every back-reference resolves to the node the encoder meant, the stream is read to its end (liveness)")])


def plan_codec(fam, mc=None, note="", module="TraceCodec", level="model_checking", selftest=True, sweeps=()):
    def f(run, tmp):
        known = V.load_known()
        hx = V.build_harness(tmp)
        if mc:
            mc(run, tmp)
        codec_stage(run, tmp, hx, known, fam, fam, module=module, selftest=selftest)
        if sweeps:
            sweep_stage(run, tmp, hx, known, sweeps)
        return V.finish(run, level, note)
    return f


HCODEC_CFG = """SPECIFICATION Spec
CONSTANTS DefMode = "%(defmode)s"
          PreDefs = %(predefs)s
          MaxChunks = %(maxchunks)d
          Deviation = "%(deviation)s"
          Wide = %(wide)s
          MaxDev = %(maxdev)d
%(checks)s
CHECK_DEADLOCK FALSE
"""


def hcodec_cfg(**kw):
    d = dict(defmode="exact", predefs="{0}", maxchunks=2, deviation="none", wide="TRUE", maxdev=2, checks="INVARIANTS Emit")
    d.update(kw)
    return HCODEC_CFG % d


def alt_stage(run, tmp, hx, known, name, fam, mode, cfgtext, simulate=None, mc_note=""):
    """values from the harness -> encodings from the TLA+ reference encoder -> real decoder -> TLC validation"""
    vdir = V.os.path.join(tmp, "vals_" + name)
    V.run_hx(hx, ["altvalues", "-family", fam, "-seed", str(run.seed), "-tier", run.tier, "-out", vdir])
    d = V.spec_dir(tmp, "gen_" + name)
    vp = V.os.path.join(d, "values.ndjson")
    if V.os.path.lexists(vp):
        V.os.remove(vp)
    V.os.symlink(V.os.path.join(vdir, "values.ndjson"), vp)
    vec = V.os.path.join(tmp, "vec_%s.ndjson" % name)
    extra = ()
    workers = 8
    if simulate:
        extra = ("-simulate", "num=%d" % max(1, simulate // 8), "-depth", "20000", "-seed", str(run.seed))
        workers = 8
    r = V.tlc_vectors(tmp, "HCodec", name, cfgtext, vec, workers=workers, extra=extra, timeout=2400)
    run.add_mc("HCodec/" + name, r, mc_note or "reference encoder: every choice within the stated bounds enumerated; each complete behaviour printed as a vector")
    out = V.os.path.join(tmp, "tr_" + name)
    hxargs = ["altreplay", "-family", fam, "-mode", mode, "-vectors", vec]
    V.run_hx(hx, hxargs + ["-seed", str(run.seed), "-tier", run.tier, "-out", out, "-shards", str(V.NCPU)])
    shards = V.shard_files(out)
    v = V.validate_shards(tmp, "TraceCodec", shards, name)
    summary = V.json.load(open(V.os.path.join(out, "summary.json")))
    summary["vectors_from_tlc"] = r["vectors"]
    gen_bad = [x for x in v["rejs"] if x[1].startswith("gen.")]
    if gen_bad:
        raise V.Infra("the reference encoder produced an encoding the reference decoder does not accept (specification bug, no verdict): %s" % gen_bad[:5])
    mine = owned(run.prop, v["rejs"])
    summary["rejections_owned_by_other_properties"] = len(v["rejs"]) - len(mine)
    v["rejs"] = mine
    run.add_validation(name, v, summary)
    V.judge(run, known, mine, shards, dict(hx=hxargs, seed=run.seed, tier=run.tier, module="TraceCodec", note="vectors must be regenerated by the generator configuration " + name))
    binding_selftest(run, tmp, shards, "TraceCodec", name, set(x[0] for x in v["rejs"]))


def fixture_stage(run, tmp, hx, known):
    """fixed vectors: the message written by the Java implementation (tests/java-tests) and the
    examples of the specification text; TLC checks that the octets denote the expected value
    (reference decoder + Denotes) and that the real decoder returns it"""
    vdir = V.os.path.join(tmp, "vals_fixtures")
    V.run_hx(hx, ["altvalues", "-family", "fixtures", "-out", vdir])
    out = V.os.path.join(tmp, "tr_fixtures")
    hxargs = ["altreplay", "-family", "fixtures", "-mode", "exact", "-vectors", V.os.path.join(vdir, "vectors.ndjson")]
    V.run_hx(hx, hxargs + ["-out", out, "-shards", "1"])
    shards = V.shard_files(out)
    v = V.validate_shards(tmp, "TraceCodec", shards, "fixtures")
    gen_bad = [x for x in v["rejs"] if x[1].startswith("gen.")]
    if gen_bad:
        raise V.Infra("a fixture's octets do not denote its expected value under the specification: %s" % gen_bad[:5])
    mine = owned(run.prop, v["rejs"])
    v["rejs"] = mine
    run.add_validation("fixtures", v, V.json.load(open(V.os.path.join(out, "summary.json"))))
    V.judge(run, known, mine, shards, dict(hx=hxargs, seed=run.seed, tier=run.tier, module="TraceCodec"))


def hcodec_mc(run, tmp, hx, fam="small"):
    vdir = V.os.path.join(tmp, "vals_mc_" + fam)
    V.run_hx(hx, ["altvalues", "-family", fam, "-seed", str(run.seed), "-tier", run.tier, "-out", vdir])
    for cfg, expect, note in (("HCodec_mc", "ok", "ParseBack (encoder and reference decoder inverse, RefAgreement, TablesAgree), RefTable, Terminates over the %s universe, <=2 non-canonical choices per encoding" % fam),
                              ("HCodec_neg", "ParseBack", "negative: ref ordinal consumed by empty containers / timestamps violates ParseBack")):
        d = V.spec_dir(tmp, "mc_" + cfg + "_" + fam)
        vp = V.os.path.join(d, "values.ndjson")
        if V.os.path.lexists(vp):
            V.os.remove(vp)
        V.os.symlink(V.os.path.join(vdir, "values.ndjson"), vp)
        r = V.run_tlc(d, "HCodec", cfg, workers=V.NCPU, timeout=2400, heap="8g")
        ok = ("No error has been found" in r["out"]) if expect == "ok" else (("Invariant %s is violated" % expect) in r["out"])
        if not ok:
            raise V.Infra("model checking %s did not give the expected result (%s):\n%s" % (cfg, expect, r["out"][-3000:]))
        run.add_mc(cfg + "/" + fam, r, note)


def hstream_mc(run, tmp, hx, fam, configs):
    """HStream: small-step encoder (HCodec) and small-step decoder of one stream; configs = [(cfg, expect, note)]"""
    vdir = V.os.path.join(tmp, "vals_hs_" + fam)
    V.run_hx(hx, ["altvalues", "-family", fam, "-seed", str(run.seed), "-tier", run.tier, "-out", vdir])
    for cfg, expect, note in configs:
        d = V.spec_dir(tmp, "mc_" + cfg + "_" + fam)
        vp = V.os.path.join(d, "values.ndjson")
        if V.os.path.lexists(vp):
            V.os.remove(vp)
        V.os.symlink(V.os.path.join(vdir, "values.ndjson"), vp)
        r = V.run_tlc(d, "HStream", cfg, workers=V.NCPU, timeout=3000, heap="8g")
        ok = ("No error has been found" in r["out"]) if expect == "ok" else any(("Invariant %s is violated" % x) in r["out"] for x in expect.split("|"))
        if not ok:
            raise V.Infra("model checking HStream/%s did not give the expected result (%s):\n%s" % (cfg, expect, r["out"][-3000:]))
        run.add_mc(cfg + "/" + fam, r, note)


def plan_c04(run, tmp):
    known = V.load_known()
    hx = V.build_harness(tmp)
    hstream_mc(run, tmp, hx, "graphs", [
        ("HStream_graphs", "ok", "RefAgreement, NoReject, DecoderNeverAhead, AllRead, termination for every edge assignment over <=2 (thorough <=3) nodes x every filler, lists / maps of pointers, shared containers; decoder steps interleaved with encoder steps"),
        ("HStream_gneg1", "RefAgreement|NoReject", "negative: a decoder that registers a container when it closes violates RefAgreement / cannot resolve a back-reference into an open container"),
        ("HStream_gneg2", "AllRead|NoReject|RefAgreement", "negative: an encoder ordinal consumed by empty containers / timestamps (the pinned tree's order) leaves the tables unequal")])
    codec_stage(run, tmp, hx, known, "c04", "c04")
    return V.finish(run, "model_checking", "HStream (small-step encoder and decoder with ghost node identities) model-checked over the exhaustive small graphs; the same graph family and random graphs encoded and decoded by the real code; TLC checks ref ordinals on the wire (Denotes binds node->ordinal) and identity in the decoded graph")


def plan_c03(run, tmp):
    known = V.load_known()
    hx = V.build_harness(tmp)
    hcodec_mc(run, tmp, hx)
    fixture_stage(run, tmp, hx, known)
    th = run.tier == "thorough"
    alt_stage(run, tmp, hx, known, "c03small", "small", "exact",
              hcodec_cfg(predefs="{0, 1, 17}", maxdev=3 if th else 2, maxchunks=3 if th else 2))
    alt_stage(run, tmp, hx, known, "c03rand", "rand", "exact",
              hcodec_cfg(predefs="{0, 3}", maxdev=100000, maxchunks=6), simulate=20000 if th else 1500,
              mc_note="reference encoder in simulation mode: encoding choices drawn from the seed for generated values (long strings, binaries, lists included)")
    return V.finish(run, "model_checking", "the TLA+ reference encoder (HCodec) enumerates / draws legal encodings; each is decoded by the real decoder and TLC compares the result with the decoding of the library's own rendering")


def plan_c09(run, tmp):
    known = V.load_known()
    hx = V.build_harness(tmp)
    codec_stage(run, tmp, hx, known, "c09", "c09")
    th = run.tier == "thorough"
    alt_stage(run, tmp, hx, known, "c09chunks", "c09", "exact",
              hcodec_cfg(maxchunks=4 if th else 3, maxdev=4 if th else 3, wide="FALSE"),
              mc_note="reference encoder: strings and binaries at top level, as list element, map key and value and struct field, in every legal chunking of up to %d chunks (empty chunks included) and every length form" % (4 if th else 3))
    return V.finish(run, "model_checking", "string/binary round trips validated by TLC: payload, character counts, chunk boundaries; every legal chunking of short strings and binaries (enumerated by the TLA+ reference encoder) decoded by the real decoder")


def plan_c05(run, tmp):
    known = V.load_known()
    hx = V.build_harness(tmp)
    th = run.tier == "thorough"
    allk = "{" + ", ".join(str(k) for k in range(0, 41)) + "}"
    hstream_mc(run, tmp, hx, "c05s", [
        ("HStream_vary", "ok", "with varied class definitions (permuted, dropped, unknown fields carrying containers): the decoder reads and drops unknown fields and stays aligned: NoReject, AllRead"),
        ("HStream_neg3", "AllRead|NoReject|RefAgreement", "negative: a decoder that forgets the containers opened inside a skipped field falls behind the encoder's ordinals")])
    alt_stage(run, tmp, hx, known, "c05small", "c05s", "vary",
              hcodec_cfg(defmode="vary", predefs=allk if th else "{0, 17}", maxdev=2 if th else 1, wide="FALSE"),
              mc_note="every permutation / subset / one unknown field (9 kinds of unknown value) of the class definitions of the small objects x definition index k x short/long instance form")
    alt_stage(run, tmp, hx, known, "c05five", "c05", "vary",
              hcodec_cfg(defmode="vary", predefs=allk, maxdev=100000, wide="TRUE", maxchunks=2), simulate=60000 if th else 600,
              mc_note="simulation: definition variants of 5- and 16-field structs, definition index 0..40, unknown fields carrying containers")
    return V.finish(run, "model_checking", "class definitions varied by the TLA+ reference encoder (permuted, with fields dropped, with an unknown field at any position carrying any kind of value, at definition index 0..40, short and long instance form); the real decoder's result is compared by TLC with the value whose dropped fields are zero")


def plan_c14(run, tmp):
    known = V.load_known()
    hx = V.build_harness(tmp)
    th = run.tier == "thorough"
    cdir = V.os.path.join(tmp, "corpus")
    V.run_hx(hx, ["hostilecorpus", "-seed", str(run.seed), "-out", cdir])
    d = V.spec_dir(tmp, "gen_mut")
    vp = V.os.path.join(d, "valid.ndjson")
    V.os.symlink(V.os.path.join(cdir, "valid.ndjson"), vp)
    vec = V.os.path.join(tmp, "mutants.ndjson")
    cfg = "SPECIFICATION Spec\nCONSTANTS Stride = %d\nINVARIANTS Emit CorpusOK\nCHECK_DEADLOCK FALSE\n" % (1 if th else 3)
    r = V.tlc_vectors(tmp, "MutGen", "mut", cfg, vec, workers=8, timeout=2400)
    run.add_mc("MutGen", r, "every valid corpus message x every (strided) offset x mutation catalogue; each mutant classified by the reference decoder (well-formed / first error offset)")
    out = V.os.path.join(tmp, "tr_hostile")
    hxargs = ["hostile", "-vectors", vec]
    V.run_hx(hx, hxargs + ["-seed", str(run.seed), "-tier", run.tier, "-out", out, "-shards", str(V.NCPU)], timeout=7200)
    shards = V.shard_files(out)
    v = V.validate_shards(tmp, "TraceCodec", shards, "hostile")
    summary = V.json.load(open(V.os.path.join(out, "summary.json")))
    summary["mutants_from_tlc"] = r["vectors"]
    gen_bad = [x for x in v["rejs"] if x[1].startswith("gen.")]
    if gen_bad:
        raise V.Infra("mutant classification changed between TLC and the harness: %s" % gen_bad[:5])
    run.add_validation("hostile", v, summary)
    V.judge(run, known, v["rejs"], shards, dict(hx=hxargs, seed=run.seed, tier=run.tier, module="TraceCodec"))
    binding_selftest(run, tmp, shards, "TraceCodec", "hostile", set(x[0] for x in v["rejs"]))
    run.assumptions += ["no-panic / bounded time and memory are run-time monitors (isolated worker, RLIMIT_AS 6 GiB, 10 s watchdog, TotalAlloc delta); the specification contributes the structure-aware mutants and their classification",
                        "flat bounds (256 MiB, 10 s for inputs <= 64 KiB) cannot be exceeded by an implementation linear in its input"]
    return V.finish(run, "exploration", "structure-aware mutants generated and classified by TLC (MutGen over the reference decoder), prefixes and random strings; every decode entry point in an isolated worker; verdict by monitors recorded in the trace and evaluated by TLC")


def hist_stage(run, tmp, hx, known, maxlen, nsim):
    """histories generated by HApi replayed on real instances; probes validated by TLC"""
    vec = V.os.path.join(tmp, "hist_vectors.ndjson")
    cfg = 'SPECIFICATION Spec\nCONSTANTS MaxLen = %d\n Deviation = "none"\nINVARIANTS Emit\nCHECK_DEADLOCK FALSE\n'
    r = V.tlc_vectors(tmp, "HApi", "GenHist", cfg % maxlen, vec, workers=8, timeout=2400)
    run.add_mc("GenHist", r, "generator: every history up to length %d" % maxlen)
    nv = r["vectors"]
    if nsim:
        r2 = V.tlc_vectors(tmp, "HApi", "GenHistSim", cfg % 30, vec, workers=4, timeout=2400, append=True,
                           extra=("-simulate", "num=%d" % nsim, "-depth", "31", "-seed", str(run.seed)))
        run.add_mc("GenHistSim", r2, "generator (simulation): histories up to length 30 (every prefix printed)")
        nv += r2["vectors"]
    out = V.os.path.join(tmp, "tr_hist")
    hxargs = ["hist", "-vectors", vec]
    V.run_hx(hx, hxargs + ["-out", out, "-shards", str(V.NCPU)], timeout=7200)
    shards = V.shard_files(out)
    v = V.validate_shards(tmp, "TraceCodec", shards, "hist")
    summary = V.json.load(open(V.os.path.join(out, "summary.json")))
    summary["vectors_from_tlc"] = nv
    mine = owned(run.prop, v["rejs"])
    summary["state_trace"] = dict(table_size_disagreements_with_HApiRef=sum(1 for x in v["rejs"] if x[1] == "diag.state"),
                                  note="diagnostic only; sizes of the real tables read through the verif-tagged accessors after every operation")
    summary["rejections_owned_by_other_properties"] = len([x for x in v["rejs"] if not x[1].startswith("diag.")]) - len(mine)
    v["rejs"] = mine
    run.add_validation("hist", v, summary)
    V.judge(run, known, mine, shards, dict(hx=hxargs, seed=run.seed, tier=run.tier, module="TraceCodec"))
    binding_selftest(run, tmp, shards, "TraceCodec", "hist", set(x[0] for x in v["rejs"]))


def plan_c02(run, tmp):
    known = V.load_known()
    hx = V.build_harness(tmp)
    codec_stage(run, tmp, hx, known, "c01", "c01")
    # the same clauses on what a REUSED encoder / serializer emits after any history
    hist_stage(run, tmp, hx, known, 2, 0 if run.tier == "quick" else 100)
    return V.finish(run, "model_checking", "encoder output of generated zoo values, and of reused instances after every short API history, parsed by the TLA+ reference decoder (ParseWhole) and related to the value by Denotes")


def plan_c11(run, tmp):
    known = V.load_known()
    hx = V.build_harness(tmp)
    th = run.tier == "thorough"
    r = V.model_check(tmp, "HApi", "HApi")
    run.add_mc("HApi", r, "ProbeEqualsFresh after every history of length <= 8 over {stream write/read, one-shot encode/decode ok and failing, Reset} x 4 abstract values")
    for neg in ("resetKeepsRefs", "resetKeepsDefs", "resetKeepsCount", "encodeSkipsReset"):
        d = V.spec_dir(tmp, "mc_HApi_" + neg)
        with open(V.os.path.join(d, "HApi_%s.cfg" % neg), "w") as f:
            f.write('SPECIFICATION Spec\nCONSTANTS MaxLen = 4\n Deviation = "%s"\nINVARIANTS ProbeEqualsFresh\nVIEW View\nCHECK_DEADLOCK FALSE\n' % neg)
        r = V.run_tlc(d, "HApi", "HApi_" + neg, workers=4, timeout=600)
        if "Invariant ProbeEqualsFresh is violated" not in r["out"]:
            raise V.Infra("negative configuration %s did not violate ProbeEqualsFresh" % neg)
        run.add_mc("HApi_" + neg, r, "negative configuration: ProbeEqualsFresh violated")
    hist_stage(run, tmp, hx, known, 3 if th else 2, 400 if th else 12)
    run.assumptions += ["probe values have no multi-entry maps, so octet equality between the used and the fresh instance is required",
                        "error-ness is compared, not error text"]
    return V.finish(run, "model_checking", "HApi model-checked (ProbeEqualsFresh; three negative configurations); every history of the model up to the bound and simulated histories up to length 30 replayed on real Encoder / Decoder / Serializer instances, probes on the used and on a fresh instance compared by TLC; snapshots of values, input octets and maps before/after compared by TLC")


def plan_c16(run, tmp):
    known = V.load_known()
    hx = V.build_harness(tmp)
    r = V.model_check(tmp, "HExtract", "HExtract")
    run.add_mc("HExtract", r, "Terminates, Closed, Consistent for every type graph over 2 struct types x 2 fields x every witness shape")
    r = V.model_check(tmp, "HExtract", "HExtract_neg", expect="Closed")
    run.add_mc("HExtract_neg", r, "negative: a walk that stops at nil pointers violates Closed")
    r = V.model_check(tmp, "HExtract", "HExtract_neg2", expect="Temporal property Terminates was violated")
    run.add_mc("HExtract_neg2", r, "negative: a type walk without a visited set does not terminate on a self-referential type")
    r = V.model_check(tmp, "HExtract", "HExtract_three")
    run.add_mc("HExtract_three", r, "3 struct types x 1 field: Terminates, Closed, Sound")
    if run.tier == "thorough":
        r = V.model_check(tmp, "HExtract", "HExtract_big")
        run.add_mc("HExtract_big", r, "2 struct types x 3 fields, safety (68 M states; 3 x 2 does not finish within an hour)")
    out = V.os.path.join(tmp, "tr_extract")
    hxargs = ["extract"]
    V.run_hx(hx, hxargs + ["-seed", str(run.seed), "-tier", run.tier, "-out", out, "-shards", str(V.NCPU)], timeout=3600)
    shards = V.shard_files(out)
    v = V.validate_shards(tmp, "TraceCodec", shards, "extract")
    summary = V.json.load(open(V.os.path.join(out, "summary.json")))
    run.add_validation("extract", v, summary)
    V.judge(run, known, v["rejs"], shards, dict(hx=hxargs, seed=run.seed, tier=run.tier, module="TraceCodec"))
    binding_selftest(run, tmp, shards, "TraceCodec", "extract", set(x[0] for x in v["rejs"]))
    rshards = V.shard_files(out, "rt")
    v2 = V.validate_shards(tmp, "TraceCodec", rshards, "extract_rt")
    mine = [x for x in v2["rejs"] if V.re.search(r"^(C01|C16|C02\.(wellformed|class|fields|listType))", x[1]) and x[1] != "C01.genericMap"]
    v2["rejs"] = mine
    run.add_validation("extract_rt", v2, dict(evaluations=v2["events"], traces=v2["events"], distinct_nontrivial=0, family_rule="round trips of second values with the maps extracted from each witness"))
    V.judge(run, known, mine, rshards, dict(hx=hxargs, seed=run.seed, tier=run.tier, module="TraceCodec", shard="rt"))
    return V.finish(run, "model_checking", "HExtract model-checked; extraction entry points run on every type x witness in a worker process, the reflect type graph and the resulting maps recorded and TLC checks closure, consistency and custom names over the static type graph; second values round-tripped with each witness's maps")


def plan_c12(run, tmp):
    known = V.load_known()
    hx = V.build_harness(tmp)
    hxr = V.build_harness(tmp, race=True)
    th = run.tier == "thorough"
    r = V.model_check(tmp, "HConc", "HConc")
    run.add_mc("HConc", r, "Independence, NoSharedWrite, PrivateState under every token-granularity interleaving of 3 instances x all values of <=2 tokens over 2 classes")
    r = V.model_check(tmp, "HConc", "HConc_neg", expect="Independence")
    run.add_mc("HConc_neg", r, "negative: a package-level definition cache violates Independence")
    r = V.model_check(tmp, "HConc", "HConc_neg2", expect="NoSharedWrite")
    run.add_mc("HConc_neg2", r, "negative: an incomplete name map is written (auto-registration)")
    # (a) spec -> code: every interleaving replayed at call granularity
    vec = V.os.path.join(tmp, "sched_vectors.ndjson")
    cfg = 'SPECIFICATION Spec\nCONSTANTS N = %d\n Classes = {"A"%s}\n Deviation = "none"\nINVARIANTS Emit\nCHECK_DEADLOCK FALSE\n'
    r = V.tlc_vectors(tmp, "HConc", "GenSched2", cfg % (2, ', "B"'), vec, workers=4)
    run.add_mc("GenSched2", r, "generator: all interleavings of 2 instances")
    r2 = V.tlc_vectors(tmp, "HConc", "GenSched3", cfg % (3, ''), vec, workers=4, append=True)
    run.add_mc("GenSched3", r2, "generator: all interleavings of 3 instances")
    out = V.os.path.join(tmp, "tr_sched")
    hxargs = ["concsched", "-vectors", vec]
    V.run_hx(hx, hxargs + ["-out", out, "-shards", str(V.NCPU)])
    shards = V.shard_files(out)
    v = V.validate_shards(tmp, "TraceCodec", shards, "sched")
    run.add_validation("sched", v, V.json.load(open(V.os.path.join(out, "summary.json"))))
    V.judge(run, known, v["rejs"], shards, dict(hx=hxargs, seed=run.seed, tier=run.tier, module="TraceCodec"))
    binding_selftest(run, tmp, shards, "TraceCodec", "sched", set(x[0] for x in v["rejs"]))
    # (b) code -> spec under load, race-detector build
    outl = V.os.path.join(tmp, "tr_load")
    V.os.makedirs(outl, exist_ok=True)
    env = dict(V.GOENV, GORACE="log_path=%s halt_on_error=0" % V.os.path.join(outl, "race"))
    p = V.subprocess.run([hxr, "concload", "-seed", str(run.seed), "-tier", run.tier, "-out", outl, "-shards", str(V.NCPU)], env=env, capture_output=True, text=True, timeout=3600)
    if p.returncode != 0 and p.returncode != 66:
        # the Go runtime aborts a process in which two goroutines use one map without synchronisation:
        # the harness only reads its shared maps, so such an abort is the library's doing
        if "fatal error: concurrent map" in p.stderr:
            V.os.makedirs(V.os.path.join(V.OUTROOT, "replays"), exist_ok=True)
            rp = V.os.path.join(V.OUTROOT, "replays", "C12-fatal-seed%d.txt" % run.seed)
            with open(rp, "w") as f:
                f.write("reproduce: build harness with -race; hx concload -seed %d -tier %s\n\n" % (run.seed, run.tier))
                f.write(p.stderr[-20000:])
            run.violations.append(("C12.fatal", "the Go runtime aborted the load run: concurrent use of one map", rp, 1))
            return V.finish(run, "model_checking", "load run aborted by the Go runtime (concurrent map access)")
        raise V.Infra("concload failed: %s" % (p.stderr[-2000:]))
    races = [f for f in V.os.listdir(outl) if f.startswith("race.")]
    shards = V.shard_files(outl)
    v = V.validate_shards(tmp, "TraceCodec", shards, "load")
    summary = V.json.load(open(V.os.path.join(outl, "summary.json")))
    summary["race_reports"] = len(races)
    run.add_validation("load", v, summary)
    V.judge(run, known, v["rejs"], shards, dict(hx=["concload"], seed=run.seed, tier=run.tier, module="TraceCodec", build="-race"))
    if races:
        V.os.makedirs(V.os.path.join(V.OUTROOT, "replays"), exist_ok=True)
        rp = V.os.path.join(V.OUTROOT, "replays", "C12-race-seed%d.txt" % run.seed)
        with open(rp, "w") as f:
            f.write("reproduce: build harness with -race; hx concload -seed %d -tier %s\n\n" % (run.seed, run.tier))
            f.write(open(V.os.path.join(outl, races[0])).read()[:20000])
        run.violations.append(("C12.race", "data race reported by the Go race detector", rp, 1))
    # (c) inventory of package-level state (diagnostic only)
    outi = V.os.path.join(tmp, "tr_inv")
    V.run_hx(hx, ["inventory", "-out", outi])
    vi = V.validate_shards(tmp, "TraceCodec", V.shard_files(outi), "inv")
    inv = V.json.loads(open(V.shard_files(outi)[0]).readline())
    run.extra["package_level_state"] = dict(scanned=inv["vars"], diagnostics=["%s assigned outside the allowed writers" % inv["vars"][int(d) - 1]["name"] for (_i, c, d) in vi["rejs"] if c == "diag.inventory"])
    run.assumptions += ["goroutine schedules of the Go runtime are not enumerated: (a) replays every call-granularity interleaving of the model deterministically, (b) samples real schedules under the race detector",
                        "'no unsynchronised access' is decided by the Go race detector attached to the conformance run"]
    return V.finish(run, "model_checking", "HConc model-checked; every call-granularity interleaving generated by TLC replayed on real instances (direct and pool-issued) and compared by TLC with the un-interleaved run; load runs of 2..64 goroutines under the race detector, every call's octets compared by TLC with the call alone")


def plan_pool(run, tmp):
    known = V.load_known()
    hx = V.build_harness(tmp)
    # (A) model checking of the pool design
    for cfg in (["HPool_s0", "HPool_s1", "HPool"] if run.tier == "quick" else ["HPool_s0", "HPool_s1", "HPool", "HPool_big"]):
        r = V.model_check(tmp, "HPool", cfg)
        run.add_mc(cfg, r, "Exclusive, Bounded, NeverBlocks (ENABLED Get/Return in every state), FreshWhenEmpty; all interleavings of 3 goroutines")
    r = V.model_check(tmp, "HPool", "HPool_negblock", expect="NeverBlocks")
    run.add_mc("HPool_negblock", r, "negative: Return without default violates NeverBlocks")
    r = V.model_check(tmp, "HPool", "HPool_negbound", expect="Bounded")
    run.add_mc("HPool_negbound", r, "negative: Return that always keeps violates Bounded")
    # (A') unbounded number of operations: an inductive invariant discharged by Apalache (symbolic)
    d = V.spec_dir(tmp, "apalache_pool")
    t0 = V.time.time()
    for args, what in ((["--init=Init", "--length=0"], "Init => IndInv"), (["--init=IndInv", "--length=1"], "IndInv /\\ Next => IndInv'")):
        p = V.subprocess.run(["timeout", "900", "apalache-mc", "check", "--cinit=CInit", "--inv=IndInv", "--out-dir=" + V.os.path.join(d, "apa-out")] + args + ["HPoolInd.tla"],
                             cwd=d, capture_output=True, text=True)
        if "EXITCODE: OK" not in p.stdout:
            raise V.Infra("Apalache did not discharge %s for HPoolInd:\n%s" % (what, p.stdout[-2000:]))
    run.mc.append(dict(config="HPoolInd (Apalache)", distinct_states=0, states_generated=0, wall_s=round(V.time.time() - t0, 1),
                       checks="inductive invariant TypeOK /\\ Exclusive /\\ Bounded /\\ Known: holds initially and is preserved by every Get / Return, for Size 0..3, three goroutines, any number of operations (at most 12 distinct objects)"))
    # (B) spec -> code: every behaviour of HPool for small constants replayed on the real pools
    vec = V.os.path.join(tmp, "pool_vectors.ndjson")
    first = True
    gens = [("{1, 2}", 0, 3), ("{1, 2}", 1, 3), ("{1, 2}", 2, 3), ("{1, 2, 3}", 1, 2)]
    if run.tier == "thorough":
        gens += [("{1, 2}", 1, 4), ("{1, 2}", 2, 4), ("{1, 2, 3}", 2, 2), ("{1, 2, 3}", 0, 2)]
    nvec = 0
    for i, (g, size, maxops) in enumerate(gens):
        cfg = "SPECIFICATION Spec\nCONSTANTS G = %s\n Size = %d\n MaxOps = %d\n Deviation = \"none\"\nINVARIANTS Emit\nCHECK_DEADLOCK FALSE\n" % (g, size, maxops)
        r = V.tlc_vectors(tmp, "HPool", "GenPool%d" % i, cfg, vec, append=not first)
        first = False
        nvec += r["vectors"]
        run.add_mc("GenPool%d" % i, r, "generator: all behaviours with G=%s Size=%d MaxOps=%d printed as replay vectors" % (g, size, maxops))
    out = V.os.path.join(tmp, "tr_poolseq")
    V.run_hx(hx, ["poolseq", "-vectors", vec, "-out", out, "-shards", str(V.NCPU)])
    shards = V.shard_files(out)
    v = V.validate_shards(tmp, "TracePoolSeq", shards, "poolseq")
    summary = V.json.load(open(V.os.path.join(out, "summary.json")))
    summary["vectors_from_tlc"] = nvec
    run.add_validation("poolseq", v, summary)
    V.judge(run, known, v["rejs"], shards, dict(hx=["poolseq", "-vectors", "(regenerate with GenPool)"], seed=run.seed, tier=run.tier, module="TracePoolSeq"))
    binding_selftest(run, tmp, shards, "TracePoolSeq", "poolseq", set(x[0] for x in v["rejs"]))
    # objects handed out are usable: a round trip with each (validated by TraceCodec)
    ushards = V.shard_files(out, "use")
    vu = V.validate_shards(tmp, "TraceCodec", ushards, "pooluse")
    vu["rejs"] = [r for r in vu["rejs"] if not r[1].startswith("C02.dateUnit") and r[1] != "C01.genericMap"]
    run.add_validation("pooluse", vu, dict(evaluations=vu["events"], traces=vu["events"], distinct_nontrivial=0, family_rule="a round trip of a probe value through every object obtained from a pool"))
    V.judge(run, known, vu["rejs"], ushards, dict(hx=["poolseq"], seed=run.seed, tier=run.tier, module="TraceCodec"))
    # (C) code -> spec: concurrent histories, linearizability against the same transitions
    outc = V.os.path.join(tmp, "tr_poolconc")
    hxr = V.build_harness(tmp, race=True)
    V.run_hx(hxr, ["poolconc", "-seed", str(run.seed), "-tier", run.tier, "-out", outc, "-shards", str(V.NCPU)])
    cshards = V.shard_files(outc)
    st = conc_validate(run, tmp, cshards)
    summary = V.json.load(open(V.os.path.join(outc, "summary.json")))
    run.add_validation("poolconc", st, summary)
    run.assumptions += ["Go channel operations are linearizable (the trace spec searches a linearization point between the start and end ticket of each call)",
                        "blocking is observed by a 60 s watchdog around each history and a per-call watchdog in sequential replays"]
    return V.finish(run, "model_checking", "HPool model-checked exhaustively; every HPool behaviour (small constants) replayed on real pools and validated; concurrent histories checked for linearizability against the same transitions under -race")


def conc_validate(run, tmp, shards):
    import concurrent.futures as cf

    def one(i_path):
        i, path = i_path
        hdr = V.json.loads(open(path).readline())
        n = sum(1 for _ in open(path))
        if hdr.get("blocked"):
            return dict(rej=("C17.blocked", "history did not finish within 60 s"), hdr=hdr, generated=0, distinct=0, events=0, path=path)
        d = V.spec_dir(tmp, "poolconc_%02d" % i)
        tp = V.os.path.join(d, "trace.ndjson")
        if V.os.path.lexists(tp):
            V.os.remove(tp)
        V.os.symlink(path, tp)
        t0 = V.time.time()
        r = V.run_tlc(d, "TracePool", workers=1, timeout=240, heap="6g")
        hdr["tlc_s"] = round(V.time.time() - t0, 1)
        if r["rc"] == 124:   # search for a linearization did not finish: no verdict on this history
            return dict(rej=None, undecided=True, hdr=hdr, generated=0, distinct=0, events=n - 1, path=path)
        hw = None
        for line in r["out"].splitlines():
            m = V.re.match(r'^<<"HIGHWATER", (\d+), (\d+)>>$', line)
            if m:
                hw = (int(m.group(1)), int(m.group(2)))
        if hw is None or "No error has been found" not in r["out"] and "Bounded is violated" not in r["out"]:
            raise V.Infra("pool history validation did not complete: %s\n%s" % (path, r["out"][-3000:]))
        rej = None
        if "Bounded is violated" in r["out"]:
            rej = ("C17.bounded", "pool retained more than its size")
        elif hw[0] != hw[1]:
            rej = ("C17.notLinearizable", "no behaviour of the pool specification explains the history beyond line %d of %d" % (hw[0], hw[1] - 1))
        return dict(rej=rej, hdr=hdr, generated=r["generated"], distinct=r["distinct"], events=n - 1, path=path)
    with cf.ThreadPoolExecutor(max_workers=max(2, V.NCPU // 2)) as ex:
        rs = list(ex.map(one, enumerate(shards)))
    for r in rs:
        if r["rej"]:
            import shutil
            V.os.makedirs(V.os.path.join(V.OUTROOT, "replays"), exist_ok=True)
            rp = V.os.path.join(V.OUTROOT, "replays", "C17-history-%d-seed%d.ndjson" % (r["hdr"]["id"], run.seed))
            shutil.copy(r["path"], rp)
            run.violations.append((r["rej"][0], r["rej"][1], rp, 1))
    run.extra["concurrent_histories_undecided_within_time_limit"] = sum(1 for r in rs if r.get("undecided"))
    run.extra["concurrent_histories"] = [dict(id=r["hdr"].get("id"), goroutines=r["hdr"].get("g"), size=r["hdr"].get("size"), calls=r["events"] // 2,
                                              tlc_s=r["hdr"].get("tlc_s"), undecided=bool(r.get("undecided"))) for r in rs]
    return dict(rejs=[], events=sum(r["events"] for r in rs), generated=sum(r["generated"] for r in rs), distinct=sum(r["distinct"] for r in rs))


PLANS = {
    "C01": plan_codec("c01", None, "round trips of generated zoo values recorded as rt events and validated by TLC against TraceCodec (SameCodes)"),
    "C02": plan_c02,
    "C07": plan_codec("c07", scalar_mc, "integer round trips validated by TLC: exactness and shortest form per wire kind; 2^32-point sweeps (thorough: exhaustive, quick: every 512th value) against TLC-exported region tables", sweeps=("int32", "int64")),
    "C08": plan_codec("c08", scalar_mc, "double round trips validated by TLC against the octet-level IEEE classification; sweep of the float32 bit patterns (thorough: all 2^32, quick: every 512th) against the TLC-exported table", sweeps=("float32",)),
    "C09": plan_c09,
    "C04": plan_c04,
    "C06": plan_codec("c06", stream_mc, "multi-value streams through one encoder/decoder and one serializer over a counting reader; TLC threads the stream state (class, type and ref tables) through the whole history: framing offsets, denotation with cross-value refs, order, no carrier"),
    "C15": plan_codec("c15", fault_mc, "fault enumeration: for each value and writer-taking entry point every Write index k x 4 fault kinds is executed against the real encoder; each run's writer log is replayed by TLC through HFault (FaultSurfaces)", module="TraceFault", level="fault_enumeration"),
    "C17": plan_pool,
    "C03": plan_c03,
    "C12": plan_c12,
    "C16": plan_c16,
    "C11": plan_c11,
    "C14": plan_c14,
    "C05": plan_c05,
    "C13": plan_codec("c13", None, "encode calls on values containing an unsupported kind at every position: TLC requires an error (no panic, no success), and well-formed output for the control values"),
    "C10": plan_codec("c10", scalar_mc, "timestamp round trips validated by TLC at millisecond resolution"),
}
