"""Per-property plans: which TLA+ configurations are model-checked and which
conformance stages bind them to the code."""
import re
import vcheck as V

OWN = {
    "C01": r"^(C01|C06\.carrier|C16\.panic)",
    "C02": r"^(C02|C07\.exact|C08\.exact|C09|C10\.instant|C01\.bool)",
    "C07": r"^(C07|C01|C02\.wellformed|C02\.kind)",
    "C08": r"^(C08|C01|C02\.wellformed|C02\.kind)",
    "C09": r"^(C09|C01|C02\.wellformed|C02\.kind|C02\.absent)",
    "C10": r"^(C10|C01|C02\.wellformed|C02\.kind|C02\.absent)",
    "C04": r"^(C02\.ref|C02\.absent|C02\.wellformed|C02\.kind|C01)",
    "C06": r"^(C06|C02\.(?!dateUnit)|C07\.exact|C08\.exact|C09|C10\.instant|C16\.panic)",
    "C15": r"^(C15|trace)",
    "C13": r"^(C13|C02|C01\.encpanic|C01\.encerr)",
}


def owned(prop, rejs):
    rx = re.compile(OWN[prop])
    return [r for r in rejs if rx.search(r[1])]


def codec_stage(run, tmp, hx, known, name, fam, module="TraceCodec", selftest=True):
    out = V.os.path.join(tmp, "tr_" + name)
    hxargs = ["codec", "-family", fam]
    V.run_hx(hx, hxargs + ["-seed", str(run.seed), "-tier", run.tier, "-out", out, "-shards", str(V.NCPU)])
    shards = V.shard_files(out)
    v = V.validate_shards(tmp, module, shards, name)
    summary = V.json.load(open(V.os.path.join(out, "summary.json")))
    mine = owned(run.prop, v["rejs"])
    summary["rejections_owned_by_other_properties"] = len(v["rejs"]) - len(mine)
    v["rejs"] = mine
    run.add_validation(name, v, summary)
    V.judge(run, known, mine, shards, dict(hx=hxargs, seed=run.seed, tier=run.tier, module=module))
    if selftest:
        binding_selftest(run, tmp, shards, module, name, set(r[0] for r in v["rejs"]))


def binding_selftest(run, tmp, shards, module, name, already):
    """Demonstrate the binding: corrupt recorded fields of good events and
    require TLC to reject exactly those events."""
    evs = []
    for path in shards:
        for line in open(path):
            e = V.json.loads(line)
            if e.get("ev") == "rt" and e["id"] not in already and e.get("dskip") == 0 and e.get("derr") == 0 and e.get("dpanic") == 0 and len(line) < 20000:
                evs.append(e)
            if len(evs) >= 12:
                break
        if len(evs) >= 12:
            break
    if not evs:
        return
    want = {}
    for i, e in enumerate(evs):
        if i % 3 == 0:      # one octet too many on the wire
            e["out"] = e["out"] + [78]
            want[e["id"]] = "C02.wellformed"
        elif i % 3 == 1:    # the decoder "returned" something else
            e["r"] = {"n": [], "r": {"k": "int", "g": "int8", "b": [0, 0, 0, 0, 0, 0, 0, 77]}}
            want[e["id"]] = "C01."
        else:               # unchanged control event
            want[e["id"]] = None
    d = V.os.path.join(tmp, "selftest_" + name)
    V.os.makedirs(d, exist_ok=True)
    tp = V.os.path.join(d, "trace.00.ndjson")
    with open(tp, "w") as f:
        for e in evs:
            f.write(V.json.dumps(e) + "\n")
    v = V.validate_shards(tmp, module, [tp], "selftest_" + name)
    got = {}
    for (eid, code, _d) in v["rejs"]:
        got.setdefault(eid, []).append(code)
    for eid, pref in want.items():
        codes = [c for c in got.get(eid, []) if not c.startswith("C02.dateUnit")]
        if pref is None and codes:
            raise V.Infra("binding self-test: control event %d rejected: %s" % (eid, codes))
        if pref is not None and not any(c.startswith(pref) for c in codes):
            raise V.Infra("binding self-test: corrupted event %d (%s) not rejected: %s" % (eid, pref, codes))
    run.extra.setdefault("binding_selftest", []).append(dict(stage=name, corrupted=sum(1 for x in want.values() if x), rejected_as_expected=sum(1 for x in want.values() if x), controls_accepted=sum(1 for x in want.values() if x is None)))


def scalar_mc(run, tmp):
    r = V.model_check(tmp, "MCScalar", "MCScalar_thorough" if run.tier == "thorough" else "MCScalar")
    run.add_mc("MCScalar", r, "every legal form of every int/long/double/date in the stated finite sets decodes to its value; minimal form is minimal; tag partition")


def fault_mc(run, tmp):
    r = V.model_check(tmp, "HFault", "HFault")
    run.add_mc("HFault", r, "design: every write answer inspected => Surfaces, StopsAfterFault, Terminates for <=12 writes, every fault position")
    r = V.model_check(tmp, "HFault", "HFault_neg", expect="Surfaces")
    run.add_mc("HFault_neg", r, "negative configuration (a write result is dropped) violates Surfaces: the invariant is not vacuous")


def plan_codec(fam, mc=None, note="", module="TraceCodec", level="model_checking", selftest=True):
    def f(run, tmp):
        known = V.load_known()
        hx = V.build_harness(tmp)
        if mc:
            mc(run, tmp)
        codec_stage(run, tmp, hx, known, fam, fam, module=module, selftest=selftest)
        return V.finish(run, level, note)
    return f


PLANS = {
    "C01": plan_codec("c01", None, "round trips of generated zoo values recorded as rt events and validated by TLC against TraceCodec (SameCodes)"),
    "C02": plan_codec("c01", None, "encoder output of generated zoo values parsed by the TLA+ reference decoder (ParseWhole) and related to the value by Denotes"),
    "C07": plan_codec("c07", scalar_mc, "integer round trips validated by TLC: exactness and shortest form per wire kind"),
    "C08": plan_codec("c08", scalar_mc, "double round trips validated by TLC against the octet-level IEEE classification"),
    "C09": plan_codec("c09", None, "string/binary round trips validated by TLC: payload, character counts, chunk boundaries"),
    "C04": plan_codec("c04", None, "pointer graphs (exhaustive small, random large) encoded and decoded; TLC checks ref ordinals on the wire (Denotes binds node->ordinal) and identity in the decoded graph (canonical numbering equality)"),
    "C06": plan_codec("c06", None, "multi-value streams through one encoder/decoder and one serializer over a counting reader; TLC threads the stream state (class, type and ref tables) through the whole history: framing offsets, denotation with cross-value refs, order, no carrier"),
    "C15": plan_codec("c15", fault_mc, "fault enumeration: for each value and writer-taking entry point every Write index k x 4 fault kinds is executed against the real encoder; each run's writer log is replayed by TLC through HFault (FaultSurfaces)", module="TraceFault", level="fault_enumeration", selftest=False),
    "C13": plan_codec("c13", None, "encode calls on values containing an unsupported kind at every position: TLC requires an error (no panic, no success), and well-formed output for the control values"),
    "C10": plan_codec("c10", scalar_mc, "timestamp round trips validated by TLC at millisecond resolution"),
}
