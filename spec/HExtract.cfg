SPECIFICATION Spec
CONSTANTS NS = 2
 NF = 2
 Deviation = "none"
INVARIANTS Closed Sound StackBounded
PROPERTY Terminates
CHECK_DEADLOCK FALSE
