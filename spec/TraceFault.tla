---------------------------- MODULE TraceFault ----------------------------
(* Trace specification for fault-injected encode calls: each event is the  *)
(* writer's log of one call plus the call's result; the log is replayed    *)
(* through HFault!FStep and FaultSurfaces is evaluated.                    *)
EXTENDS HFaultOps, Json

Trace == ndJsonDeserialize("trace.ndjson")
VARIABLES l, nrej
tvars == <<l, nrej>>

RECURSIVE Replay(_,_,_)
Replay(ws, k, s) == IF k > Len(ws) THEN s
                    ELSE Replay(ws, k + 1, FStep(s, [req |-> ws[k][1], ret |-> ws[k][2], err |-> ws[k][3]]))

FaultCodes(e) ==
  LET s == Replay(e.writes, 1, F0) IN
  (IF e.panic = 1 THEN {<<"C15.panic", e.k>>} ELSE {})
  \cup (IF ~FaultSurfaces(s, e.ret = 1) THEN {<<"C15.swallowed", e.k>>} ELSE {})
  \cup (IF e.clean = 1 /\ e.ret = 1 THEN {<<"C15.cleanFails", e.k>>} ELSE {})   \* a fault-free control run must succeed
  \cup (IF e.clean = 1 /\ s.faulted THEN {<<"trace.badControl", e.k>>} ELSE {})

TInit == l = 1 /\ nrej = 0
TNext == /\ l <= Len(Trace)
         /\ LET e == Trace[l]  cs == FaultCodes(e) IN
            /\ \A c \in cs : PrintT(<<"REJ", e.id, c[1], c[2]>>)
            /\ nrej' = nrej + Cardinality(cs)
         /\ l' = l + 1
TSpec == TInit /\ [][TNext]_tvars
TraceAccepted == /\ TLCGet("stats").diameter - 1 = Len(Trace)
                 /\ PrintT(<<"DONE", Len(Trace)>>)
===========================================================================
