SPECIFICATION Spec
CONSTANTS G = {1, 2, 3}
          Size = 1
          MaxOps = 3
          Deviation = "keepAndDrop"
INVARIANTS Bounded
VIEW View
CHECK_DEADLOCK FALSE
