---------------------------- MODULE HFault ----------------------------
(* A destination writer that may fail, and the encoder's obligation     *)
(* (C15): if any Write answered with an error or a short count, the     *)
(* encode call returns an error.                                        *)
(*                                                                      *)
(* The encoder issues writes one after another; the writer answers each *)
(* with (accepted octets, error?).  Design: every answer is inspected;  *)
(* on a fault the encoder stops and the call fails.                     *)
EXTENDS HFaultOps

CONSTANTS MaxWrites,        \* bound on the number of writes of one call (model checking only)
          DropResults       \* TRUE: the deviation "a write result is dropped" (negative config)

VARIABLES i,        \* number of writes issued so far
          faulted,  \* some write was answered with an error or a short count
          failed,   \* the encoder has decided that the call fails
          done      \* the call has returned
vars == <<i, faulted, failed, done>>

Init == i = 0 /\ faulted = FALSE /\ failed = FALSE /\ done = FALSE

WriteOk == /\ ~done /\ ~failed /\ i < MaxWrites
           /\ i' = i + 1 /\ UNCHANGED <<faulted, failed, done>>

(* the writer faults on this write: error once, error from now on, or short count *)
WriteFault == /\ ~done /\ ~failed /\ i < MaxWrites
              /\ i' = i + 1 /\ faulted' = TRUE
              /\ \/ failed' = TRUE                       \* design: the result is inspected
                 \/ (DropResults /\ failed' = failed)    \* deviation: the result is dropped
              /\ UNCHANGED done

Return == /\ ~done /\ done' = TRUE /\ UNCHANGED <<i, faulted, failed>>

Next == WriteOk \/ WriteFault \/ Return
Spec == Init /\ [][Next]_vars /\ WF_vars(Next)

Surfaces == done => (faulted => failed)
StopsAfterFault == failed => faulted
Terminates == <>done
=======================================================================
