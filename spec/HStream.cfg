SPECIFICATION SSpec
CONSTANTS DefMode = "exact"
          PreDefs = {0, 2}
          MaxChunks = 1
          Deviation = "none"
          Wide = TRUE
          MaxDev = 1
          Streaming = TRUE
          DecDeviation = "none"
INVARIANTS RefAgreement NoReject DecoderNeverAhead AllRead
PROPERTY SDone
CHECK_DEADLOCK FALSE
