SPECIFICATION SSpec
CONSTANTS DefMode = "vary"
          PreDefs = {0, 2}
          MaxChunks = 1
          Deviation = "none"
          Wide = TRUE
          MaxDev = 1
          Streaming = FALSE
          DecDeviation = "dropSkippedRefs"
INVARIANTS NoReject AllRead
CHECK_DEADLOCK FALSE
