SPECIFICATION Spec
CONSTANTS N = 2
 Classes = {"A", "B"}
 Deviation = "sharedDefCache"
INVARIANTS Independence
VIEW View
CHECK_DEADLOCK FALSE
