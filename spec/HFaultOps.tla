---------------------------- MODULE HFaultOps ----------------------------
(* Pure operators of the failing-writer model, shared by the model        *)
(* (HFault) and the trace specification (TraceFault).                     *)
EXTENDS Integers, Sequences, FiniteSets, TLC

(* one writer answer, as recorded: requested, accepted, error flag *)
IsFault(w) == w.err = 1 \/ w.ret < w.req

(* pure step used by both the model and the trace specification *)
FStep(s, w) == [faulted |-> s.faulted \/ IsFault(w), n |-> s.n + 1]
F0 == [faulted |-> FALSE, n |-> 0]
(* the call's result must be an error iff required *)
FaultSurfaces(s, reterr) == s.faulted => reterr

==========================================================================
