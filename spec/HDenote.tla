---------------------------- MODULE HDenote ----------------------------
(* Relates a wire value (HParse) to an abstract Go value (DESIGN.md     *)
(* Appendix D): "these octets denote this value", clause by clause,     *)
(* each clause with a reason code; and the comparison of an original    *)
(* with a decoded abstract value up to the documented normalisations.   *)
(*                                                                      *)
(* A value is [n |-> nodes, r |-> root slot]; a context C carries the   *)
(* nodes and the type table: C = [n |-> nodes, T |-> types].            *)
EXTENDS HParse

WireKind(g) == IF g \in {"int", "int8", "int16", "int32", "uint8", "uint16"} THEN "int" ELSE "long"
CanonKind(g) == IF WireKind(g) = "int" THEN "int32" ELSE "int64"

(* first letter lower-cased: ASCII, and the capitals of Latin-1 (U+00C0..U+00DE) and Greek (U+0391..U+03A9) in *)
(* UTF-8 - the alphabets the field names of the zoo are taken from                                          *)
Lower1(name) ==
  IF Len(name) = 0 THEN name
  ELSE IF name[1] >= 65 /\ name[1] <= 90 THEN [name EXCEPT ![1] = @ + 32]
  ELSE IF Len(name) < 2 THEN name
  ELSE IF name[1] = 195 /\ name[2] >= 128 /\ name[2] <= 158 /\ name[2] # 151 THEN [name EXCEPT ![2] = @ + 32]
  ELSE IF name[1] = 206 /\ name[2] >= 145 /\ name[2] <= 159 THEN [name EXCEPT ![2] = @ + 32]
  ELSE IF name[1] = 206 /\ name[2] \in {160, 161, 163, 164, 165, 166, 167, 168, 169} THEN [name EXCEPT ![1] = 207, ![2] = @ - 32]
  ELSE name

Absent(s) == \/ s.k \in {"nil", "empty"}
             \/ (s.k \in {"str", "bin"} /\ s.b = <<>>)
             \/ (s.k = "time" /\ s.z = 1)

(* ---------------- scalar leaves: set of failed clauses ---------------- *)
ScalarCodes(w, s) ==
  CASE s.k = "bool" -> IF w.k = "bool" /\ w.v = (s.v = 1) THEN {} ELSE {"C01.bool"}
    [] s.k = "int" ->
         IF WireKind(s.g) = "int" /\ Fits32(s.b) THEN
              (IF w.k = "int" /\ Ext8(w.v) = s.b THEN {} ELSE {"C07.exact"})
              \cup (IF w.k = "int" /\ w.len # IntMinLen(w.v) THEN {"C07.shortest"} ELSE {})
         ELSE (IF w.k = "long" /\ w.v = s.b THEN {} ELSE {"C07.exact"})
              \cup (IF w.k = "long" /\ w.len # LongMinLen(w.v) THEN {"C07.shortest"} ELSE {})
    [] s.k = "f" ->
         (IF w.k = "double" /\ DoubleEq(w.v, s.b) THEN {} ELSE {"C08.exact"})
         \cup (IF w.k = "double" /\ w.len # DoubleMinLen(s.b) /\ ~(IsNaN(s.b) /\ w.len = 9)
               THEN {"C08.shortest"} ELSE {})
    [] s.k = "str" -> IF w.k = "str" /\ w.v = s.b THEN {} ELSE {"C09.str"}
    [] s.k = "bin" -> IF w.k = "bin" /\ w.v = s.b THEN {} ELSE {"C09.bin"}
    [] s.k = "time" ->
         IF w.k # "date" THEN {"C10.instant"}
         ELSE IF w.form = "ms" THEN
              (IF w.v = s.b \/ (s.sub > 0 /\ w.v = Add8(s.b, One8)) THEN {} ELSE {"C10.instant"})
         ELSE IF s.sub = 0 /\ MinToMs8(w.v) = s.b THEN {}
         ELSE IF s.sub = 0 /\ SecToMs8(w.v) = s.b THEN {"C02.dateUnit"}   \* named deviation DateCompactSeconds
         ELSE {"C10.instant"}
    [] OTHER -> {"C02.kind"}

ExactCodes == {"C01.bool", "C07.exact", "C08.exact", "C09.str", "C09.bin", "C10.instant", "C02.kind"}
KeyMatches(w, s) == IF Absent(s) THEN w.k = "null" \/ (w.k \in {"str", "bin"} /\ w.v = <<>>)
                    ELSE s.k \in {"bool", "int", "f", "str", "bin", "time"} /\ ScalarCodes(w, s) \cap ExactCodes = {}

(* ------------------------------ Denotes ------------------------------- *)
(* S = [bind |-> <<ord or -1 per node>>, bad |-> set of <<code, node>>]    *)
S0(C) == [bind |-> [i \in 1..Len(C.n) |-> -1], bad |-> {}]
AddBad(S, codes, at) == [S EXCEPT !.bad = @ \cup {<<c, at>> : c \in codes}]

RECURSIVE Den(_,_,_,_,_), DenSeq(_,_,_,_,_,_,_), DenMap(_,_,_,_,_,_,_)

(* elements lo..hi of wire sequence ws against slots ss (same indexes) *)
DenSeq(C, ws, ss, lo, hi, S, at) ==
  IF hi < lo THEN S
  ELSE IF hi - lo >= 16 THEN
       LET m == (lo + hi) \div 2 IN DenSeq(C, ws, ss, m + 1, hi, DenSeq(C, ws, ss, lo, m, S, at), at)
  ELSE DenSeq(C, ws, ss, lo + 1, hi, Den(C, ws[lo], ss[lo], S, at), at)

(* wire pairs j.. of kv against the entries m of a map node; used = matched entries *)
DenMap(C, kv, m, j, used, S, at) ==
  IF 2 * j > Len(kv) THEN
     (IF Cardinality(used) = Len(m) THEN S ELSE AddBad(S, {"C02.mapentries"}, at))
  ELSE LET wk == kv[2 * j - 1]  wv == kv[2 * j]
           cand == {i \in 1..Len(m) : i \notin used /\ KeyMatches(wk, m[i][1])} IN
       IF cand = {} THEN DenMap(C, kv, m, j + 1, used, AddBad(S, {"C02.mapkey"}, at), at)
       ELSE LET i == CHOOSE x \in cand : TRUE
                S1 == AddBad(S, (IF Absent(m[i][1]) THEN {} ELSE ScalarCodes(wk, m[i][1])), at) IN
            DenMap(C, kv, m, j + 1, used \cup {i}, Den(C, wv, m[i][2], S1, at), at)

Den(C, w, s, S, at) ==
  IF Absent(s) THEN
     (IF \/ w.k = "null"
         \/ (s.k \in {"str", "bin"} /\ w.k = s.k /\ w.v = <<>>)
         \/ (s.k \in {"nil", "empty"} /\ w.k = "list" /\ w.elems = <<>>)   \* empty container:
         \/ (s.k \in {"nil", "empty"} /\ w.k = "map" /\ w.kv = <<>>)      \* an ordinal, no identity
      THEN S ELSE AddBad(S, {"C02.absent"}, at))
  ELSE IF s.k = "bad" THEN AddBad(S, {"C13.silent"}, at)
  ELSE IF s.k # "p" THEN AddBad(S, ScalarCodes(w, s), at)
  ELSE
    LET N == C.n[s.i]  ty == C.T[N.t] IN
    IF S.bind[s.i] # -1 THEN       \* already visited: must be a back-reference to it
       (IF w.k = "ref" /\ w.ord = S.bind[s.i] THEN S ELSE AddBad(S, {"C02.ref"}, s.i))
    ELSE IF w.k = "ref" THEN AddBad(S, {"C02.ref"}, s.i)
    ELSE IF N.k = "obj" THEN
       IF w.k # "obj" THEN AddBad(S, {"C02.kind"}, s.i) ELSE
       LET S1 == [S EXCEPT !.bind[s.i] = w.ord]
           want == IF ty.hasreg = 1 THEN ty.reg ELSE ty.name
           S2 == AddBad(S1, (IF w.cls = want THEN {} ELSE {"C02.class"})
                        \cup (IF w.fields = [j \in 1..Len(ty.fn) |-> Lower1(ty.fn[j])] THEN {} ELSE {"C02.fields"}), s.i)
       IN IF Len(w.vals) # Len(N.f) THEN S2 ELSE DenSeq(C, w.vals, N.f, 1, Len(N.f), S2, s.i)
    ELSE IF N.k = "list" THEN
       IF w.k # "list" THEN AddBad(S, {"C02.kind"}, s.i) ELSE
       LET S1 == [S EXCEPT !.bind[s.i] = w.ord]
           S2 == AddBad(S1, (IF w.typed /\ ~(ty.hasreg = 1 /\ w.type = ty.reg) THEN {"C02.listType"} ELSE {})
                        \cup (IF Len(w.elems) # Len(N.e) THEN {"C02.count"} ELSE {}), s.i)
       IN IF Len(w.elems) # Len(N.e) THEN S2 ELSE DenSeq(C, w.elems, N.e, 1, Len(N.e), S2, s.i)
    ELSE \* map
       IF w.k # "map" THEN AddBad(S, {"C02.kind"}, s.i) ELSE
       LET S1 == [S EXCEPT !.bind[s.i] = w.ord]
           S2 == AddBad(S1, (IF w.typed /\ ~(ty.named = 1 /\ ty.hasreg = 1 /\ w.type = ty.reg) THEN {"C02.mapType"} ELSE {}), s.i)
       IN DenMap(C, w.kv, N.m, 1, {}, S2, s.i)

(* codes for: octets `out` are exactly one well-formed value denoting v *)
DenotesCodes(C, out, root) ==
  LET pr == ParseWhole(out) IN
  IF ~pr.ok THEN {<<"C02.wellformed", pr.at>>}
  ELSE Den(C, pr.w, root, S0(C), 0).bad

(* ----------------- original vs decoded, up to Norm ------------------- *)
IsIface(C, t) == C.T[t].kind = "iface"
SlotSame(C, a, b, typed) ==
  IF a.k = "time" /\ b.k = "time" THEN    \* two instants (the zero time is an instant too)
     b.sub = 0 /\ (b.b = a.b \/ (a.sub > 0 /\ b.b = Add8(a.b, One8)))
  ELSE IF Absent(a) \/ Absent(b) THEN Absent(a) /\ Absent(b)
  ELSE CASE a.k = "bool" -> b.k = "bool" /\ a.v = b.v
    [] a.k = "int"  -> b.k = "int" /\ a.b = b.b /\
                       (IF typed THEN a.g = b.g
                        ELSE b.g = (IF WireKind(a.g) = "int" /\ Fits32(a.b) THEN "int32" ELSE "int64"))
    [] a.k = "f"    -> b.k = "f" /\ DoubleEq(a.b, b.b) /\ (IF typed THEN a.g = b.g ELSE b.g = "float64")
    [] a.k = "str"  -> b.k = "str" /\ a.b = b.b
    [] a.k = "bin"  -> b.k = "bin" /\ a.b = b.b
    [] a.k = "time" -> b.k = "time" /\ b.sub = 0 /\ (b.b = a.b \/ (a.sub > 0 /\ b.b = Add8(a.b, One8)))
    [] a.k = "p"    -> b.k = "p" /\ a.i = b.i /\
                       (a.d = b.d \/ (~typed /\ C.n[a.i].k = "obj" /\ a.d <= 1 /\ b.d <= 1))
    [] OTHER -> FALSE

NodeSame(C, a, b) ==
  /\ a.k = b.k
  /\ CASE a.k = "obj"  -> a.t = b.t /\ Len(a.f) = Len(b.f)
                          /\ \A j \in 1..Len(a.f) : SlotSame(C, a.f[j], b.f[j], TRUE)
       [] a.k = "list" -> a.t = b.t /\ Len(a.e) = Len(b.e)
                          /\ \A j \in 1..Len(a.e) : SlotSame(C, a.e[j], b.e[j], ~IsIface(C, C.T[a.t].elem))
       [] a.k = "map"  -> Len(a.m) = Len(b.m) /\
                          IF a.t = b.t THEN
                             \A j \in 1..Len(a.m) : /\ SlotSame(C, a.m[j][1], b.m[j][1], ~IsIface(C, C.T[a.t].key))
                                                    /\ SlotSame(C, a.m[j][2], b.m[j][2], ~IsIface(C, C.T[a.t].elem))
                          ELSE /\ C.T[a.t].named = 0         \* unnamed map: no type on the wire, generic map
                               /\ IsIface(C, C.T[b.t].key) /\ IsIface(C, C.T[b.t].elem)
                               /\ \A j \in 1..Len(a.m) : /\ SlotSame(C, a.m[j][1], b.m[j][1], FALSE)
                                                          /\ SlotSame(C, a.m[j][2], b.m[j][2], FALSE)

(* codes for: decoded value r equals original v up to the normalisations *)
SameCodes(C, v, r) ==
  (IF SlotSame(C, v.r, r.r, FALSE) THEN {} ELSE {<<"C01.root", 0>>})
  \cup (IF Len(v.n) # Len(r.n) THEN {<<"C01.shape", Len(r.n)>>}
        ELSE {<<"C01.node", i>> : i \in {j \in 1..Len(v.n) : ~NodeSame(C, v.n[j], r.n[j])}})
(* a map of an unnamed Go type outside a typed destination comes back as a generic map with the same   *)
(* entries: NodeSame lets it pass, but it is not the same dynamic type - reported under its own code   *)
(* by the round-trip clause (the recorded finding KF-C01-genericMap)                                   *)
GenericMapCodes(C, v, r) ==
  IF Len(v.n) # Len(r.n) THEN {}
  ELSE {<<"C01.genericMap", i>> : i \in {j \in 1..Len(v.n) :
          v.n[j].k = "map" /\ r.n[j].k = "map" /\ v.n[j].t # r.n[j].t /\ NodeSame(C, v.n[j], r.n[j])}}

HasBad(v) == \/ v.r.k = "bad"
             \/ \E i \in 1..Len(v.n) :
                  LET N == v.n[i] IN
                  CASE N.k = "obj"  -> \E j \in 1..Len(N.f) : N.f[j].k = "bad"
                    [] N.k = "list" -> \E j \in 1..Len(N.e) : N.e[j].k = "bad"
                    [] N.k = "map"  -> \E j \in 1..Len(N.m) : N.m[j][1].k = "bad" \/ N.m[j][2].k = "bad"
=======================================================================
