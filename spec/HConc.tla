---------------------------- MODULE HConc ----------------------------
(* Separate encoder instances used concurrently over shared, complete   *)
(* name / type maps (C12).  Each instance encodes its own value as a    *)
(* sequence of class-bearing tokens; steps of different instances       *)
(* interleave at token granularity.  All mutable codec state (the class *)
(* definition table) is private to the instance; the shared maps are    *)
(* only read when they are complete.  Hence every call's output equals  *)
(* its output when run alone, under every interleaving.                 *)
EXTENDS Integers, Sequences, FiniteSets, TLC, Json

CONSTANTS N,            \* instances / goroutines
          Classes,      \* class names
          Deviation     \* "none" | "sharedDefCache" | "incompleteMap"

Inst == 1..N
(* the value of instance i: a sequence of class names (one token each) *)
Vals == [Inst -> UNION {[1..k -> Classes] : k \in 1..2}]

VARIABLES val, pos, ecls, out,      \* per instance: value, next token, private definition table, output
          gcache,                   \* package-level definition cache (exists only in the deviation)
          nameMap, nameMap0,        \* shared caller-supplied map and its initial content
          sched                     \* schedule so far (generation only)
vars == <<val, pos, ecls, out, gcache, nameMap, nameMap0, sched>>

Init == /\ val \in Vals
        /\ pos = [i \in Inst |-> 1] /\ ecls = [i \in Inst |-> {}] /\ out = [i \in Inst |-> <<>>]
        /\ gcache = {}
        /\ nameMap = (IF Deviation = "incompleteMap" THEN {} ELSE Classes) /\ nameMap0 = nameMap
        /\ sched = <<>>

Step(i) ==
  /\ pos[i] <= Len(val[i])
  /\ LET c == val[i][pos[i]]
         known == IF Deviation = "sharedDefCache" THEN c \in gcache ELSE c \in ecls[i] IN
     /\ out' = [out EXCEPT ![i] = Append(@, IF known THEN <<"inst", c>> ELSE <<"def+inst", c>>)]
     /\ ecls' = [ecls EXCEPT ![i] = @ \cup {c}]
     /\ gcache' = IF Deviation = "sharedDefCache" THEN gcache \cup {c} ELSE gcache
     /\ nameMap' = nameMap \cup {c}          \* auto-registration: a no-op iff the map is complete
  /\ pos' = [pos EXCEPT ![i] = @ + 1]
  /\ sched' = Append(sched, i)
  /\ UNCHANGED <<val, nameMap0>>

Next == \E i \in Inst : Step(i)
Spec == Init /\ [][Next]_vars

(* what instance i emits when run alone *)
RECURSIVE AloneR(_,_,_)
AloneR(v, k, seen) == IF k > Len(v) THEN <<>>
                      ELSE <<IF v[k] \in seen THEN <<"inst", v[k]>> ELSE <<"def+inst", v[k]>>>> \o AloneR(v, k + 1, seen \cup {v[k]})
Alone(i) == AloneR(val[i], 1, {})

Independence == \A i \in Inst : pos[i] > Len(val[i]) => out[i] = Alone(i)
NoSharedWrite == nameMap = nameMap0
PrivateState == \A i \in Inst : ecls[i] \subseteq {val[i][k] : k \in 1..Len(val[i])}

View == <<val, pos, ecls, out, gcache, nameMap>>
AllDone == \A i \in Inst : pos[i] > Len(val[i])
Emit == AllDone => PrintT(<<"VEC", ToJson([s |-> sched])>>)
=====================================================================
