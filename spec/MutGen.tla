---------------------------- MODULE MutGen ----------------------------
(* Structure-aware damage to valid Hessian messages (C14).  For every   *)
(* valid message of valid.ndjson and every offset, TLC applies every    *)
(* mutation of a fixed catalogue - tag swaps to one representative of   *)
(* each tag kind, length / count / index edits, truncation, deletion,   *)
(* insertion - and classifies the result with the reference decoder:    *)
(* still one well-formed value, or malformed and how far into the       *)
(* message the first error lies (coverage of the decoder's grammar).    *)
EXTENDS HParse, TLC, Json

CONSTANTS Stride     \* mutate every Stride-th offset (1 = every offset)

Valid == ndJsonDeserialize("valid.ndjson")

(* one representative octet per tag kind / form, plus extreme counts *)
TagSwaps == {0, 5, 31, 32, 35, 48, 51, 52, 56, 65, 66, 67, 68, 70, 72, 73, 74, 75, 76, 77, 78, 79, 81, 82, 83, 84,
             85, 86, 87, 88, 89, 90, 91, 93, 95, 96, 98, 111, 112, 119, 120, 127, 128, 144, 191, 200, 212, 224, 248, 255}
Mutations == {[m |-> "set", x |-> t] : t \in TagSwaps}
             \cup {[m |-> "inc", x |-> 1], [m |-> "inc", x |-> 255], [m |-> "inc", x |-> 128],
                   [m |-> "trunc", x |-> 0], [m |-> "del", x |-> 0]}
             \cup {[m |-> "ins", x |-> t] : t \in {0, 78, 81, 86, 90, 255, 144, 73}}
             \cup {[m |-> "big", x |-> 0]}      \* overwrite with I x7f ff ff ff : a huge declared count / index

(* long messages (lists of > 1024 elements): only their first octets, only count / index attacks *)
LongMutations == {[m |-> "big", x |-> 0], [m |-> "inc", x |-> 1], [m |-> "set", x |-> 255], [m |-> "set", x |-> 86], [m |-> "del", x |-> 0]}

Apply(b, p, mu) ==
  CASE mu.m = "set"   -> [b EXCEPT ![p] = mu.x]
    [] mu.m = "inc"   -> [b EXCEPT ![p] = (@ + mu.x) % 256]
    [] mu.m = "trunc" -> SubSeq(b, 1, p - 1)
    [] mu.m = "del"   -> SubSeq(b, 1, p - 1) \o SubSeq(b, p + 1, Len(b))
    [] mu.m = "ins"   -> SubSeq(b, 1, p - 1) \o <<mu.x>> \o SubSeq(b, p, Len(b))
    [] mu.m = "big"   -> SubSeq(b, 1, p - 1) \o <<73, 127, 255, 255, 255>> \o SubSeq(b, p + 1, Len(b))

VARIABLES vi, p, mu, done
vars == <<vi, p, mu, done>>

Init == /\ vi \in 1..Len(Valid)
        /\ p \in (IF Len(Valid[vi].b) > 400 THEN 1..24      \* long messages: headers only
                  ELSE {q \in 1..Len(Valid[vi].b) : q % Stride = (vi % Stride)})
        /\ mu \in (IF Len(Valid[vi].b) > 400 THEN LongMutations ELSE Mutations)
        /\ done = FALSE
Next == ~done /\ done' = TRUE /\ UNCHANGED <<vi, p, mu>>
Spec == Init /\ [][Next]_vars

Mutant == Apply(Valid[vi].b, p, mu)
Classify(b) == LET r == ParseWhole(b) IN
               IF r.ok THEN [wf |-> 1, at |-> 0, why |-> "ok"] ELSE [wf |-> 0, at |-> r.at, why |-> r.why]

(* the unmutated message is well-formed (sanity of the corpus) *)
CorpusOK == ParseWhole(Valid[vi].b).ok
Emit == done => LET m == Mutant c == Classify(m) IN
                PrintT(<<"VEC", ToJson([vid |-> Valid[vi].id, b |-> m, wf |-> c.wf, at |-> c.at, why |-> c.why,
                                         mut |-> mu.m, pos |-> p])>>)
=======================================================================
