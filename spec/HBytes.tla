---------------------------- MODULE HBytes ----------------------------
(* Octet-level helpers and the Hessian 2.0 byte-code map.             *)
(* Everything wider than 31 bits is a sequence of octets (TLC         *)
(* integers are 32-bit).                                              *)
EXTENDS Integers, Sequences, FiniteSets

Octet == 0..255

Has(b, p, n) == p >= 1 /\ p + n - 1 <= Len(b)
Sub(b, p, n) == [i \in 1..n |-> b[p + i - 1]]

S8(x)  == IF x >= 128 THEN x - 256 ELSE x
I32(b3, b2, b1, b0) == S8(b3) * 16777216 + b2 * 65536 + b1 * 256 + b0

Pow2(k) == CASE k = 0 -> 1 [] k = 1 -> 2 [] k = 2 -> 4 [] k = 3 -> 8
             [] k = 4 -> 16 [] k = 5 -> 32 [] k = 6 -> 64 [] k = 7 -> 128
             [] k = 8 -> 256 [] k = 9 -> 512 [] k = 10 -> 1024
             [] k = 11 -> 2048 [] k = 12 -> 4096 [] k = 13 -> 8192
             [] k = 14 -> 16384 [] k = 15 -> 32768 [] k = 16 -> 65536

(* int32 (a TLC integer) -> 4 octets, two's complement big-endian *)
B4(n) == LET m  == IF n < 0 THEN n + 2147483647 + 1 ELSE n      \* low 31 bits
             hi == IF n < 0 THEN 128 + (m \div 16777216) ELSE m \div 16777216
         IN <<hi, (m \div 65536) % 256, (m \div 256) % 256, m % 256>>

(* int32 -> 8 octets (sign extended) *)
Ext8(n) == LET f == IF n < 0 THEN 255 ELSE 0 IN <<f, f, f, f>> \o B4(n)

(* 8 octets that are the sign extension of their low 4 octets *)
Fits32(b) == \/ (\A i \in 1..4 : b[i] = 0)   /\ b[5] < 128
             \/ (\A i \in 1..4 : b[i] = 255) /\ b[5] >= 128
Low32(b) == I32(b[5], b[6], b[7], b[8])        \* only when Fits32(b)

(* ---- byte-code map: a total classification of 0..255 ---- *)
TagKind(t) ==
  CASE t <= 31                 -> "string"    \* x00-x1f short string
    [] t >= 32  /\ t <= 47     -> "binary"    \* x20-x2f short binary
    [] t >= 48  /\ t <= 51     -> "string"    \* x30-x33 2-octet length string
    [] t >= 52  /\ t <= 55     -> "binary"    \* x34-x37 2-octet length binary
    [] t >= 56  /\ t <= 63     -> "long"      \* x38-x3f 3-octet long
    [] t = 64                  -> "reserved"  \* x40
    [] t = 65                  -> "binary"    \* 'A' non-final chunk
    [] t = 66                  -> "binary"    \* 'B' final chunk
    [] t = 67                  -> "classdef"  \* 'C'
    [] t = 68                  -> "double"    \* 'D'
    [] t = 69                  -> "reserved"  \* 'E'
    [] t = 70                  -> "bool"      \* 'F'
    [] t = 71                  -> "reserved"  \* 'G'
    [] t = 72                  -> "map"       \* 'H' untyped map
    [] t = 73                  -> "int"       \* 'I'
    [] t = 74 \/ t = 75        -> "date"      \* x4a x4b
    [] t = 76                  -> "long"      \* 'L'
    [] t = 77                  -> "map"       \* 'M' typed map
    [] t = 78                  -> "null"      \* 'N'
    [] t = 79                  -> "object"    \* 'O'
    [] t = 80                  -> "reserved"  \* 'P'
    [] t = 81                  -> "ref"       \* x51
    [] t = 82 \/ t = 83        -> "string"    \* 'R' 'S'
    [] t = 84                  -> "bool"      \* 'T'
    [] t = 85 \/ t = 86        -> "list"      \* x55 'V'
    [] t = 87 \/ t = 88        -> "list"      \* x57 x58
    [] t = 89                  -> "long"      \* 'Y' x59 4-octet long
    [] t = 90                  -> "end"       \* 'Z'
    [] t >= 91  /\ t <= 95     -> "double"    \* x5b-x5f
    [] t >= 96  /\ t <= 111    -> "object"    \* x60-x6f
    [] t >= 112 /\ t <= 127    -> "list"      \* x70-x7f
    [] t >= 128 /\ t <= 215    -> "int"       \* x80-xd7
    [] t >= 216                -> "long"      \* xd8-xff

Kinds == {"string", "binary", "long", "reserved", "classdef", "double", "bool",
          "map", "int", "date", "null", "object", "ref", "list", "end"}

TagPartition == \A t \in Octet : TagKind(t) \in Kinds
=======================================================================
