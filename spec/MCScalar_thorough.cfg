SPECIFICATION Spec
CONSTANTS IntHi = 300000
INVARIANTS IntOK LongOK DoubleOK ArithOK TagOK
CHECK_DEADLOCK FALSE
