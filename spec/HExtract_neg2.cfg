SPECIFICATION Spec
CONSTANTS NS = 2
 NF = 1
 Deviation = "noVisited"
PROPERTY Terminates
CHECK_DEADLOCK FALSE
