SPECIFICATION Spec
CONSTANTS G = {1, 2, 3}
          Size = 2
          MaxOps = 3
          Deviation = "none"
INVARIANTS Exclusive Bounded NeverBlocks
PROPERTY FreshWhenEmpty
VIEW View
CHECK_DEADLOCK FALSE
