---------------------------- MODULE SweepTable ----------------------------
(* Exports, from the specification's own operators, the region tables that *)
(* drive the exhaustive 2^32-point sweeps of C07 / C08 (TLC integers are   *)
(* 32-bit and TLC cannot enumerate 2^32 values itself).  A region is a     *)
(* maximal interval on which the shortest form has one length; within a    *)
(* region the octets are tag zero-point + high bits, then low octets.      *)
(* The harness's table interpreter is not trusted: every disagreement it   *)
(* finds and a dense sample of agreements are round-tripped and validated  *)
(* by TLC against IntMin / LongMin / DoubleMinLen in the same run.         *)
EXTENDS HScalar, TLC, Json

Range == -300000..300000
IntChange  == {n \in Range : n > -300000 /\ IntMinLen(n) # IntMinLen(n - 1)}
LongChange == {n \in Range : n > -300000 /\ LongMinLen(Ext8(n)) # LongMinLen(Ext8(n - 1))}
DblChange  == {n \in -32768..32767 : n > -32768 /\ DoubleMinLen(DoubleOfInt(n)) # DoubleMinLen(DoubleOfInt(n - 1))}
MinI == -2147483647 - 1
MaxI == 2147483647

Table == [
  int |-> [change |-> {<<n, IntMinLen(n)>> : n \in IntChange}, first |-> IntMinLen(-300000),
           farlo |-> IntMinLen(MinI), farhi |-> IntMinLen(MaxI),
           zero |-> <<IntForm(0, 1)[1], IntForm(0, 2)[1], IntForm(0, 3)[1], IntForm(0, 5)[1]>>],
  long |-> [change |-> {<<n, LongMinLen(Ext8(n))>> : n \in LongChange}, first |-> LongMinLen(Ext8(-300000)),
            farlo |-> LongMinLen(Ext8(MinI)), farhi |-> LongMinLen(Ext8(MaxI)),
            wide |-> LongMinLen(<<0, 0, 0, 1, 0, 0, 0, 0>>),
            zero |-> <<LongForm(Ext8(0), 1)[1], LongForm(Ext8(0), 2)[1], LongForm(Ext8(0), 3)[1], LongForm(Ext8(0), 5)[1], LongForm(Ext8(0), 9)[1]>>],
  dbl |-> [change |-> {<<n, DoubleMinLen(DoubleOfInt(n))>> : n \in DblChange}, first |-> DoubleMinLen(DoubleOfInt(-32768)),
           tags |-> <<91, 92, 93, 94, 95, 68>>]
]
(* beyond the scanned range the length is constant up to the 32-bit extremes *)
ASSUME IntMinLen(-300000) = IntMinLen(MinI) /\ IntMinLen(300000) = IntMinLen(MaxI)
ASSUME LongMinLen(Ext8(-300000)) = LongMinLen(Ext8(MinI)) /\ LongMinLen(Ext8(300000)) = LongMinLen(Ext8(MaxI))
ASSUME PrintT(<<"VEC", ToJson(Table)>>)
===========================================================================
