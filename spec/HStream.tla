---------------------------- MODULE HStream ----------------------------
(* Encoder and decoder of one stream as two small-step machines.         *)
(* The encoder is HCodec (every legal choice); each of its steps is      *)
(* abstracted to a TOKEN - what a reader sees at that point of the       *)
(* stream - carrying the identity of the source node as a ghost.  The    *)
(* decoder consumes the tokens one by one with its own work stack and    *)
(* its own reference table: it registers a list, map or object when it   *)
(* reads its OPENING token (before the children), never for nulls,       *)
(* scalars, strings, binaries, dates or class definitions, and it reads  *)
(* and drops the value of a field it does not know (registering what     *)
(* that value opens).  RefAgreement: the i-th container the decoder      *)
(* registers is the node to which the encoder gave ordinal i.            *)
EXTENDS HCodec

CONSTANTS Streaming,    \* TRUE: decoder steps interleave with encoder steps (reader and writer run concurrently)
          DecDeviation  \* "none" | "registerAtClose" | "dropSkippedRefs" (negative configurations)

VARIABLES toks,   \* tokens emitted so far
          dpos,   \* next token to read
          dstk,   \* decoder work stack: <<[src, rem (-1 = until the end token), ord]>>
          dref,   \* decoder reference table: source node per ordinal (-1: a container inside a skipped field)
          derr    \* the decoder rejected the stream
svars == <<vars, toks, dpos, dstk, dref, derr>>

(* ---- the token an encoder step shows to the reader (primed variables: after the step) ---- *)
Grew == Len(out') > Len(out)
Tok ==
  IF ~Grew \/ todo = <<>> THEN <<>>
  ELSE LET it == Top IN
  CASE it.k = "lit" -> <<[k |-> "end"]>>
    [] it.k = "unknown" -> <<[k |-> "skip", n |-> nref' - nref]>>
    [] it.k = "str" -> IF Len(todo') < Len(todo) THEN <<[k |-> "leaf"]>> ELSE <<>>      \* final chunk completes the string
    [] it.k = "slot" /\ ~IsPtr(it.s) -> IF Len(todo') < Len(todo) THEN <<[k |-> "leaf"]>> ELSE <<>>
    [] it.k = "slot" /\ IsPtr(it.s) ->
         IF bind[it.s.i] # -1 THEN <<[k |-> "ref", ord |-> bind[it.s.i], src |-> it.s.i]>>
         ELSE IF Len(cls') > Len(cls) THEN <<>>                                           \* a class definition: no value yet
         ELSE LET N == Node(it.s) IN
              IF N.k = "obj" THEN <<[k |-> "open", src |-> it.s.i, rem |-> Len(todo') - Len(todo) + 1]>>
              ELSE IF N.k = "list" THEN
                   LET var == Len(todo') >= Len(todo) /\ todo'[Len(todo)].k = "lit" IN   \* a terminator was pushed under the elements
                   <<[k |-> "open", src |-> it.s.i, rem |-> IF var THEN -1 ELSE Len(N.e)]>>
              ELSE <<[k |-> "open", src |-> it.s.i, rem |-> -1]>>
    [] OTHER -> <<>>

SInit == Init /\ toks = <<>> /\ dpos = 1 /\ dstk = <<>> /\ dref = <<>> /\ derr = FALSE

EncStep == Next /\ toks' = toks \o Tok /\ UNCHANGED <<dpos, dstk, dref, derr>>

(* one value has been completed for the frame on top: count it, pop frames that are complete *)
RECURSIVE Settle(_)
Settle(stk) ==
  IF stk = <<>> THEN stk
  ELSE LET top == stk[Len(stk)] IN
       IF top.rem = -1 THEN stk
       ELSE IF top.rem > 1 THEN Append(SubSeq(stk, 1, Len(stk) - 1), [top EXCEPT !.rem = @ - 1])
       ELSE Settle(SubSeq(stk, 1, Len(stk) - 1))        \* that was its last child: the frame itself is a completed value
Completed(stk) == Settle(stk)

DecStep ==
  /\ ~derr /\ dpos <= Len(toks) /\ (Streaming \/ done)
  /\ LET t == toks[dpos] IN
     /\ dpos' = dpos + 1
     /\ CASE t.k = "leaf" -> dstk' = Completed(dstk) /\ UNCHANGED <<dref, derr>>
          [] t.k = "skip" ->       \* the value of an unknown field: read and dropped; its containers take ordinals
               /\ dref' = IF DecDeviation = "dropSkippedRefs" THEN dref ELSE dref \o [i \in 1..t.n |-> -1]
               /\ dstk' = Completed(dstk) /\ UNCHANGED derr
          [] t.k = "ref" ->
               /\ derr' = ~(t.ord < Len(dref) /\ dref[t.ord + 1] = t.src)
               /\ dstk' = Completed(dstk) /\ UNCHANGED dref
          [] t.k = "open" ->
               LET reg == DecDeviation # "registerAtClose" \/ t.rem = 0 IN
               /\ dref' = IF reg THEN Append(dref, t.src) ELSE dref
               /\ dstk' = IF t.rem = 0 THEN Completed(dstk)
                          ELSE Append(dstk, [src |-> t.src, rem |-> t.rem])
               /\ UNCHANGED derr
          [] t.k = "end" ->        \* closes the variable-length frame on top
               /\ dstk # <<>> /\ dstk[Len(dstk)].rem = -1
               /\ dref' = IF DecDeviation = "registerAtClose" THEN Append(dref, dstk[Len(dstk)].src) ELSE dref
               /\ dstk' = Completed(SubSeq(dstk, 1, Len(dstk) - 1)) /\ UNCHANGED derr
  /\ UNCHANGED <<vars, toks>>

(* fixed-length frames closing under the deviation also register late: folded into Settle is not needed for the
   negative configuration to fail, variable-length and zero-length containers suffice *)

SNext == EncStep \/ DecStep
SSpec == SInit /\ [][SNext]_svars /\ WF_svars(SNext)

(* ---- properties ---- *)
RefAgreement == \A i \in 1..Len(dref) : dref[i] # -1 => bind[dref[i]] = i - 1
NoReject == ~derr
DecoderNeverAhead == Len(dref) <= nref
AllRead == (done /\ dpos > Len(toks) /\ ~derr) => (dstk = <<>> /\ Len(dref) = nref)
SDone == <>(done /\ dpos > Len(toks))
=======================================================================
