SPECIFICATION Spec
CONSTANTS N = 3
 Classes = {"A", "B"}
 Deviation = "none"
INVARIANTS Independence NoSharedWrite PrivateState
VIEW View
CHECK_DEADLOCK FALSE
