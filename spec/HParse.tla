---------------------------- MODULE HParse ----------------------------
(* Reference decoder for the Hessian 2.0 serialization grammar: a      *)
(* total function from octet sequences to wire values, written from    *)
(* the published grammar only (it knows nothing of Go).                *)
(*                                                                     *)
(*   value ::= null | bool | int | long | double | date | string |     *)
(*             binary | list | map | object | ref | class-def value    *)
(*                                                                     *)
(* Stream state st = [cls, typ, nref]: class definitions read so far,  *)
(* type names read so far (type position), number of containers        *)
(* (lists, maps, objects) opened so far = the reference table.         *)
EXTENDS HScalar

St0 == [cls |-> <<>>, typ |-> <<>>, nref |-> 0]
Reg(st) == [st EXCEPT !.nref = @ + 1]

(* type ::= string | int   (a string appends to the type table) *)
ParseType(b, p, st) ==
  IF ~Has(b, p, 1) THEN Fail(p, "eof")
  ELSE IF IsStrTag(b[p]) THEN
       LET r == ParseStr(b, p) IN
       IF r.ok THEN Ok([name |-> r.w.v, lit |-> TRUE], r.p, [st EXCEPT !.typ = Append(@, r.w.v)]) ELSE r
  ELSE LET r == ParseInt(b, p) IN
       IF ~r.ok THEN Fail(p, "type")
       ELSE IF r.w.v < 0 \/ r.w.v >= Len(st.typ) THEN Fail(p, "typeref")
       ELSE Ok([name |-> st.typ[r.w.v + 1], lit |-> FALSE], r.p, st)

RECURSIVE PV(_,_,_), PN(_,_,_,_), PZ(_,_,_,_), PStrs(_,_,_,_)

(* exactly n values; balanced recursion *)
PN(b, p, st, n) ==
  IF n = 0 THEN Ok(<<>>, p, st)
  ELSE IF n > 16 THEN
       LET h == n \div 2  r1 == PN(b, p, st, h) IN
       IF ~r1.ok THEN r1 ELSE
       LET r2 == PN(b, r1.p, r1.st, n - h) IN
       IF ~r2.ok THEN r2 ELSE Ok(r1.w \o r2.w, r2.p, r2.st)
  ELSE LET r == PV(b, p, st) IN
       IF ~r.ok THEN r ELSE
       LET t == PN(b, r.p, r.st, n - 1) IN
       IF ~t.ok THEN t ELSE Ok(<<r.w>> \o t.w, t.p, t.st)

(* values until 'Z' *)
PZ(b, p, st, acc) ==
  IF ~Has(b, p, 1) THEN Fail(p, "eof")
  ELSE IF b[p] = 90 THEN Ok(acc, p + 1, st)
  ELSE LET r == PV(b, p, st) IN IF ~r.ok THEN r ELSE PZ(b, r.p, r.st, Append(acc, r.w))

PStrs(b, p, n, acc) ==
  IF n = 0 THEN Ok(acc, p, 0)
  ELSE LET r == ParseStr(b, p) IN IF ~r.ok THEN r ELSE PStrs(b, r.p, n - 1, Append(acc, r.w.v))

Lift(r, st) == IF r.ok THEN Ok(r.w, r.p, st) ELSE r

PV(b, p, st) ==
  IF ~Has(b, p, 1) THEN Fail(p, "eof") ELSE
  LET t == b[p]  kind == TagKind(t) IN
  CASE kind = "null"   -> Ok([k |-> "null"], p + 1, st)
    [] kind = "bool"   -> Ok([k |-> "bool", v |-> (t = 84)], p + 1, st)
    [] kind = "int"    -> Lift(ParseInt(b, p), st)
    [] kind = "long"   -> Lift(ParseLong(b, p), st)
    [] kind = "double" -> Lift(ParseDouble(b, p), st)
    [] kind = "date"   -> Lift(ParseDate(b, p), st)
    [] kind = "string" -> Lift(ParseStr(b, p), st)
    [] kind = "binary" -> Lift(ParseBin(b, p), st)
    [] kind = "ref" ->
         LET r == ParseInt(b, p + 1) IN
         IF ~r.ok THEN Fail(p, "refint")
         ELSE IF r.w.v < 0 \/ r.w.v >= st.nref THEN Fail(p, "refrange")
         ELSE Ok([k |-> "ref", ord |-> r.w.v, len |-> r.w.len], r.p, st)
    [] kind = "classdef" ->        \* 'C' string int string* , then a value
         LET n == ParseStr(b, p + 1) IN IF ~n.ok THEN Fail(p, "defname") ELSE
         LET c == ParseInt(b, n.p) IN IF ~c.ok THEN Fail(n.p, "defcount") ELSE
         IF c.w.v < 0 THEN Fail(n.p, "defcount") ELSE
         LET f == PStrs(b, c.p, c.w.v, <<>>) IN IF ~f.ok THEN Fail(c.p, "deffield") ELSE
         PV(b, f.p, [st EXCEPT !.cls = Append(@, [name |-> n.w.v, fields |-> f.w])])
    [] kind = "object" ->          \* 'O' int value* | x60-x6f value*
         LET ix == IF t = 79 THEN ParseInt(b, p + 1) ELSE Ok([v |-> t - 96, len |-> 0], p + 1, 0) IN
         IF ~ix.ok THEN Fail(p, "classidx") ELSE
         IF ix.w.v < 0 \/ ix.w.v >= Len(st.cls) THEN Fail(p, "classidx") ELSE
         LET cd == st.cls[ix.w.v + 1]
             r == PN(b, ix.p, Reg(st), Len(cd.fields)) IN
         IF ~r.ok THEN r
         ELSE Ok([k |-> "obj", ci |-> ix.w.v, cls |-> cd.name, fields |-> cd.fields,
                  vals |-> r.w, ord |-> st.nref, long |-> (t = 79), ixlen |-> ix.w.len], r.p, r.st)
    [] kind = "list" ->
         LET typed == t = 85 \/ t = 86 \/ (t >= 112 /\ t <= 119)
             var   == t = 85 \/ t = 87
             ty == IF typed THEN ParseType(b, p + 1, st) ELSE Ok([name |-> <<>>, lit |-> FALSE], p + 1, st) IN
         IF ~ty.ok THEN ty ELSE
         IF var THEN
            LET r == PZ(b, ty.p, Reg(ty.st), <<>>) IN
            IF ~r.ok THEN r
            ELSE Ok([k |-> "list", typed |-> typed, type |-> ty.w.name, tlit |-> ty.w.lit, tag |-> t,
                     var |-> TRUE, cntlen |-> 0, elems |-> r.w, ord |-> ty.st.nref], r.p, r.st)
         ELSE
            LET c == IF t = 86 \/ t = 88 THEN ParseInt(b, ty.p)
                     ELSE Ok([v |-> (IF typed THEN t - 112 ELSE t - 120), len |-> 0], ty.p, 0) IN
            IF ~c.ok THEN Fail(ty.p, "count") ELSE IF c.w.v < 0 THEN Fail(ty.p, "count") ELSE
            LET r == PN(b, c.p, Reg(ty.st), c.w.v) IN
            IF ~r.ok THEN r
            ELSE Ok([k |-> "list", typed |-> typed, type |-> ty.w.name, tlit |-> ty.w.lit, tag |-> t,
                     var |-> FALSE, cntlen |-> c.w.len, elems |-> r.w, ord |-> ty.st.nref], r.p, r.st)
    [] kind = "map" ->             \* 'H' (value value)* 'Z' | 'M' type (value value)* 'Z'
         LET typed == t = 77
             ty == IF typed THEN ParseType(b, p + 1, st) ELSE Ok([name |-> <<>>, lit |-> FALSE], p + 1, st) IN
         IF ~ty.ok THEN ty ELSE
         LET r == PZ(b, ty.p, Reg(ty.st), <<>>) IN
         IF ~r.ok THEN r ELSE IF Len(r.w) % 2 # 0 THEN Fail(p, "oddmap")
         ELSE Ok([k |-> "map", typed |-> typed, type |-> ty.w.name, kv |-> r.w, ord |-> ty.st.nref], r.p, r.st)
    [] OTHER -> Fail(p, "tag")     \* reserved octets and a stray 'Z'

(* one complete top-level value starting at p *)
ParseValue(b, p, st) == PV(b, p, st)
(* the whole octet sequence is exactly one value *)
ParseWhole(b) == LET r == PV(b, 1, St0) IN
                 IF ~r.ok THEN r ELSE IF r.p # Len(b) + 1 THEN Fail(r.p, "leftover") ELSE r
=======================================================================
