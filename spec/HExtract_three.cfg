SPECIFICATION Spec
CONSTANTS NS = 3
 NF = 1
 Deviation = "none"
INVARIANTS Closed Sound StackBounded
PROPERTY Terminates
CHECK_DEADLOCK FALSE
