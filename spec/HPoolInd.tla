---------------------------- MODULE HPoolInd ----------------------------
(* Typed copy of the pool model (HPool) for Apalache: an inductive        *)
(* invariant shows Exclusive and Bounded for ANY number of operations     *)
(* (three goroutines, objects numbered below MaxObj).                     *)
EXTENDS Integers, FiniteSets

CONSTANTS
    \* @type: Int;
    Size

G == {1, 2, 3}
MaxObj == 12

VARIABLES
    \* @type: Set(Int);
    cached,
    \* @type: Int -> Set(Int);
    held,
    \* @type: Int;
    nfresh

CInit == Size \in 0..3

Init == cached = {} /\ held = [g \in G |-> {}] /\ nfresh = 0

Get(g) ==
    \/ /\ cached # {}
       /\ \E o \in cached :
            /\ held' = [held EXCEPT ![g] = @ \cup {o}]
            /\ cached' = cached \ {o}
       /\ UNCHANGED nfresh
    \/ /\ cached = {} /\ nfresh < MaxObj
       /\ held' = [held EXCEPT ![g] = @ \cup {nfresh + 1}]
       /\ nfresh' = nfresh + 1 /\ UNCHANGED cached

Return(g) ==
    \E o \in held[g] :
        /\ held' = [held EXCEPT ![g] = @ \ {o}]
        /\ cached' = IF Cardinality(cached) < Size THEN cached \cup {o} ELSE cached
        /\ UNCHANGED nfresh

Next == \E g \in G : Get(g) \/ Return(g)

TypeOK == /\ cached \in SUBSET (1..MaxObj)
          /\ held \in [G -> SUBSET (1..MaxObj)]
          /\ nfresh \in 0..MaxObj
          /\ Size \in 0..3
Exclusive == /\ \A g \in G : held[g] \cap cached = {}
             /\ \A g, h \in G : g # h => held[g] \cap held[h] = {}
Bounded == Cardinality(cached) <= Size
Known == /\ cached \subseteq 1..nfresh
         /\ \A g \in G : held[g] \subseteq 1..nfresh
IndInv == TypeOK /\ Exclusive /\ Bounded /\ Known
=========================================================================
