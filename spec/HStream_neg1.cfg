SPECIFICATION SSpec
CONSTANTS DefMode = "exact"
          PreDefs = {0, 2}
          MaxChunks = 1
          Deviation = "none"
          Wide = TRUE
          MaxDev = 1
          Streaming = TRUE
          DecDeviation = "registerAtClose"
INVARIANTS RefAgreement NoReject
CHECK_DEADLOCK FALSE
