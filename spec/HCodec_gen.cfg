SPECIFICATION Spec
CONSTANTS DefMode = "exact"
          PreDefs = {0, 1, 17}
          MaxChunks = 2
          Deviation = "none"
          Wide = TRUE
          MaxDev = 2
INVARIANTS Emit
CHECK_DEADLOCK FALSE
