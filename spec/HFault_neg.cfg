SPECIFICATION Spec
CONSTANTS MaxWrites = 3
          DropResults = TRUE
INVARIANTS Surfaces
CHECK_DEADLOCK FALSE
