SPECIFICATION Spec
INVARIANT Bounded
CONSTRAINT HighWater
POSTCONDITION Accepted
CHECK_DEADLOCK FALSE
