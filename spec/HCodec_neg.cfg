SPECIFICATION Spec
CONSTANTS DefMode = "exact"
          PreDefs = {0, 2}
          MaxChunks = 2
          Deviation = "refBeforeNull"
          Wide = TRUE
          MaxDev = 2
INVARIANTS ParseBack RefTable
CHECK_DEADLOCK FALSE
