---------------------------- MODULE TracePool ----------------------------
(* Linearizability check of one concurrent history of a real pool.  The   *)
(* trace holds, in the order of one global atomic ticket counter, a start *)
(* (S) and an end (E) line for every call with the object it involved.    *)
(* Between its S and its E each call takes effect at one internal         *)
(* linearization step Lin(g); the history is accepted iff some placement  *)
(* of these steps makes every call a step of the pool specification.      *)
EXTENDS HPoolOps, Json

Trace == ndJsonDeserialize("trace.ndjson")
Size == Trace[1].size
G == 0..(Trace[1].g - 1)
None == [op |-> "none", obj |-> 0]

VARIABLES l, ps, pend, lin
vars == <<l, ps, pend, lin>>

Init == TLCSet(1, 0) /\ l = 2 /\ ps = P0 /\ pend = [g \in G |-> None] /\ lin = {}

Start == /\ l <= Len(Trace) /\ Trace[l].t = "S"
         /\ pend[Trace[l].g] = None
         /\ pend' = [pend EXCEPT ![Trace[l].g] = [op |-> Trace[l].op, obj |-> Trace[l].obj]]
         /\ l' = l + 1 /\ UNCHANGED <<ps, lin>>
End == /\ l <= Len(Trace) /\ Trace[l].t = "E"
       /\ Trace[l].g \in lin
       /\ lin' = lin \ {Trace[l].g} /\ pend' = [pend EXCEPT ![Trace[l].g] = None]
       /\ l' = l + 1 /\ UNCHANGED ps
Lin(g) == /\ pend[g] # None /\ g \notin lin
          /\ lin' = lin \cup {g}
          /\ LET r == IF pend[g].op = "get" THEN PGet(ps, pend[g].obj) ELSE PRet(ps, pend[g].obj, Size) IN
             r[1] /\ ps' = r[2]
          /\ UNCHANGED <<l, pend>>
Next == Start \/ End \/ \E g \in G : Lin(g)
Spec == Init /\ [][Next]_vars

Bounded == MaxRetained(ps) <= Size
HighWater == TLCSet(1, IF TLCGet(1) < l THEN l ELSE TLCGet(1))
Accepted == /\ PrintT(<<"HIGHWATER", TLCGet(1), Len(Trace) + 1>>)
            /\ (TLCGet(1) = Len(Trace) + 1 => PrintT(<<"DONE", Len(Trace)>>))
==========================================================================
