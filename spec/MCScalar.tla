---------------------------- MODULE MCScalar ----------------------------
(* Model-checks the scalar layer of the specification against itself:    *)
(* for every value of stated finite sets, every legal wire form parses   *)
(* back to the value, consumes exactly its octets, starts with a tag of  *)
(* the right kind, and the minimal form is the unique shortest one.      *)
EXTENDS HScalar, TLC
CONSTANTS IntHi
IntLo == 0 - IntHi

Edges32 == {2147483647 - d : d \in 0..3} \cup {-2147483647 - 1 + d : d \in 0..3}
           \cup {x + d : x \in {47, -16, 2047, -2048, 262143, -262144, 32767, -32768, 127, -128, 15, -8, 65535, 16777215, -16777216}, d \in -3..3}
Ints == (IntLo..IntHi) \cup Edges32

(* 8-octet patterns beyond 32 bits: every single-bit value +-1, sign edges *)
Bit8(k) == [i \in 1..8 |-> IF i = 8 - (k \div 8) THEN Pow2(k % 8) ELSE 0]      \* 2^k, k in 0..63
Sub1(b) == Add8(b, <<255,255,255,255,255,255,255,255>>)
Neg8(b) == Add8([i \in 1..8 |-> 255 - b[i]], One8)
Wide == UNION {{Bit8(k), Sub1(Bit8(k)), Add8(Bit8(k), One8), Neg8(Bit8(k)), Sub1(Neg8(Bit8(k))), Add8(Neg8(Bit8(k)), One8)} : k \in 0..63}

VARIABLES kind, n, b8
vars == <<kind, n, b8>>

Init == \/ kind = "int"    /\ n \in Ints /\ b8 = Ext8(n)
        \/ kind = "long"   /\ n \in Ints /\ b8 = Ext8(n)
        \/ kind = "wide"   /\ n = 0 /\ b8 \in Wide
        \/ kind = "double" /\ n \in {x \in Ints : x >= -32768 /\ x <= 32767} /\ b8 = DoubleOfInt(n)
        \/ kind = "tag"    /\ n \in 0..255 /\ b8 = PosZero
Next == UNCHANGED vars
Spec == Init /\ [][Next]_vars

IntOK ==
  kind = "int" =>
    /\ \A f \in IntForms(n) :
         LET r == ParseInt(f, 1) IN
         r.ok /\ r.w.v = n /\ r.p = Len(f) + 1 /\ r.w.len = Len(f) /\ TagKind(f[1]) = "int"
    /\ Len(IntMin(n)) = IntMinLen(n)
    /\ \A f \in IntForms(n) : Len(f) >= IntMinLen(n)
    /\ Cardinality(IntForms(n)) = Cardinality(IntLens(n))
    /\ B4(n) = SubSeq(Ext8(n), 5, 8) /\ Fits32(Ext8(n)) /\ Low32(Ext8(n)) = n

LongOK ==
  kind \in {"long", "wide"} =>
    /\ \A f \in LongForms(b8) :
         LET r == ParseLong(f, 1) IN
         r.ok /\ r.w.v = b8 /\ r.p = Len(f) + 1 /\ r.w.len = Len(f) /\ TagKind(f[1]) = "long"
    /\ Len(LongMin(b8)) = LongMinLen(b8)
    /\ (kind = "wide" /\ ~Fits32(b8) => LongForms(b8) = {<<76>> \o b8})

DoubleOK ==
  kind = "double" =>
    /\ Integral16(b8) = <<TRUE, n>>
    /\ IsF32Exact(b8)
    /\ LET f == IF n = 0 THEN <<91>> ELSE IF n = 1 THEN <<92>>
                ELSE IF n >= -128 /\ n <= 127 THEN <<93, n % 256>>
                ELSE <<94, (n \div 256) % 256, n % 256>>
           r == ParseDouble(f, 1) IN
       r.ok /\ r.w.v = b8 /\ Len(f) = DoubleMinLen(b8) /\ TagKind(f[1]) = "double"
    /\ ParseDouble(<<68>> \o b8, 1).w.v = b8

(* octet arithmetic used for dates agrees with integer arithmetic where the latter cannot overflow *)
ArithOK ==
  kind = "int" =>
    /\ (n < 2147483647 => Add8(Ext8(n), One8) = Ext8(n + 1))
    /\ (n >= -2000000 /\ n <= 2000000 => SecToMs8(B4(n)) = Ext8(n * 1000))
    /\ (n >= -35000 /\ n <= 35000 => MinToMs8(B4(n)) = Ext8(n * 60000))
    /\ (n < 2147483647 => Less8(Ext8(n), Ext8(n + 1)) /\ ~Less8(Ext8(n + 1), Ext8(n)))
    /\ LET d == <<74>> \o Ext8(n)  r == ParseDate(d, 1) IN r.ok /\ r.w.v = Ext8(n) /\ r.w.form = "ms" /\ r.p = 10
    /\ LET d == <<75>> \o B4(n)  r == ParseDate(d, 1) IN r.ok /\ r.w.v = B4(n) /\ r.w.form = "compact" /\ r.p = 6

TagOK == kind = "tag" =>
    /\ TagKind(n) \in Kinds
    /\ (IsIntTag(n) <=> TagKind(n) = "int") /\ (IsLongTag(n) <=> TagKind(n) = "long")
    /\ (IsDoubleTag(n) <=> TagKind(n) = "double") /\ (IsStrTag(n) <=> TagKind(n) = "string")
    /\ (IsBinTag(n) <=> TagKind(n) = "binary") /\ (IsDateTag(n) <=> TagKind(n) = "date")
=========================================================================
