---------------------------- MODULE HApi ----------------------------
(* Life cycle of one encoder / decoder / serializer instance (C11).    *)
(* The per-stream tables (class definitions sent / read, objects       *)
(* registered for back-references, type names) persist between         *)
(* streaming calls and are cleared by Reset; every one-shot entry      *)
(* point is DEFINED as Reset followed by the streaming action.  Hence  *)
(* after any history a one-shot call behaves as on a fresh instance.   *)
(*                                                                     *)
(* Values are abstracted to what the tables can remember about them:   *)
(* the classes they need and the identities of the objects in them.    *)
EXTENDS Integers, Sequences, FiniteSets, TLC, Json

CONSTANTS MaxLen,      \* bound on the history length
          Deviation    \* "none" | "resetKeepsRefs" | "resetKeepsDefs" | "resetKeepsCount" | "encodeSkipsReset"

Vals == 1..6
(* 1 scalar; 2 struct A by value; 3 pointer p to an A; 4 struct B holding p; *)
(* 5 an empty list (takes a reference ordinal, has no identity);            *)
(* 6 a list holding p twice (its second mention is a back-reference)        *)
Classes(v) == CASE v = 1 -> {} [] v = 2 -> {"A"} [] v = 3 -> {"A"} [] v = 4 -> {"A", "B"} [] v = 5 -> {} [] v = 6 -> {"A"}
Objects(v) == CASE v \in {1, 2, 5} -> {} [] v \in {3, 4, 6} -> {"p"}     \* stable pointer identities
Ordinals(v) == CASE v = 1 -> 0 [] v = 2 -> 1 [] v = 3 -> 1 [] v = 4 -> 2 [] v = 5 -> 1 [] v = 6 -> 2   \* ordinals consumed
HasBackRef(v) == v = 6

VARIABLES ecls, erefs, ecnt, \* encoder tables: definitions sent, objects registered, ordinals handed out
          dcls, drefs,      \* decoder tables (what earlier values of the stream defined)
          hist,
          fin               \* the history is complete (generation only)
vars == <<ecls, erefs, ecnt, dcls, drefs, hist, fin>>

(* what a streaming write of v emits, given the tables *)
(* a back-reference inside v is written as an ordinal counted from the stream's start *)
Render(v, cls, refs, cnt) == [defs |-> Classes(v) \ cls, backrefs |-> Objects(v) \cap refs,
                              base |-> IF HasBackRef(v) THEN cnt ELSE 0]
Fresh(v) == Render(v, {}, {}, 0)

ResetEnc(cls, refs) == CASE Deviation = "resetKeepsRefs" -> <<{}, refs>>
                         [] Deviation = "resetKeepsDefs" -> <<cls, {}>>
                         [] OTHER -> <<{}, {}>>
ResetCnt(c) == IF Deviation = "resetKeepsCount" THEN c ELSE 0
(* a one-shot encode on the instance as it is now *)
OneShot(v) == LET r == IF Deviation = "encodeSkipsReset" THEN <<ecls, erefs>> ELSE ResetEnc(ecls, erefs)
                  c == IF Deviation = "encodeSkipsReset" THEN ecnt ELSE ResetCnt(ecnt)
              IN Render(v, r[1], r[2], c)

Init == ecls = {} /\ erefs = {} /\ ecnt = 0 /\ dcls = {} /\ drefs = {} /\ hist = <<>> /\ fin = FALSE

Log(op, v) == hist' = Append(hist, [op |-> op, v |-> v])

StreamWrite(v) == /\ ecls' = ecls \cup Classes(v) /\ erefs' = erefs \cup Objects(v)
                  /\ ecnt' = IF ecnt < 6 THEN ecnt + Ordinals(v) ELSE ecnt      \* (bounded for model checking)
                  /\ UNCHANGED <<dcls, drefs>> /\ Log("swrite", v)
EncodeOk(v) ==    /\ LET r == ResetEnc(ecls, erefs) IN
                     /\ ecls' = r[1] \cup Classes(v) /\ erefs' = r[2] \cup Objects(v)
                  /\ ecnt' = ResetCnt(ecnt) + Ordinals(v)
                  /\ UNCHANGED <<dcls, drefs>> /\ Log("encode", v)
(* a failing encode (unsupported element in the middle): tables left partly filled *)
EncodeFail(v) ==  /\ LET r == ResetEnc(ecls, erefs) IN
                     /\ ecls' \in SUBSET (r[1] \cup Classes(v)) /\ r[1] \subseteq ecls'
                     /\ erefs' \in SUBSET (r[2] \cup Objects(v)) /\ r[2] \subseteq erefs'
                  /\ ecnt' \in ResetCnt(ecnt)..(ResetCnt(ecnt) + Ordinals(v))
                  /\ UNCHANGED <<dcls, drefs>> /\ Log("encodefail", v)
StreamRead(v) ==  /\ dcls' = dcls \cup Classes(v) /\ drefs' = drefs \cup Objects(v)
                  /\ UNCHANGED <<ecls, erefs, ecnt>> /\ Log("sread", v)
DecodeOk(v) ==    /\ dcls' = Classes(v) /\ drefs' = Objects(v)
                  /\ UNCHANGED <<ecls, erefs, ecnt>> /\ Log("decode", v)
DecodeGarbage(v) == /\ dcls' \in SUBSET Classes(v) /\ drefs' \in SUBSET Objects(v)
                    /\ UNCHANGED <<ecls, erefs, ecnt>> /\ Log("decodegarbage", v)
Reset ==          /\ LET r == ResetEnc(ecls, erefs) IN ecls' = r[1] /\ erefs' = r[2]
                  /\ ecnt' = ResetCnt(ecnt)
                  /\ dcls' = {} /\ drefs' = {} /\ Log("reset", 1)

Stop == hist # <<>> /\ fin' = TRUE /\ UNCHANGED <<ecls, erefs, ecnt, dcls, drefs, hist>>
Next == /\ ~fin
        /\ \/ (/\ Len(hist) < MaxLen /\ fin' = FALSE
               /\ \/ \E v \in Vals : StreamWrite(v) \/ EncodeOk(v) \/ StreamRead(v) \/ DecodeOk(v)
                  \/ \E v \in {2, 4} : EncodeFail(v) \/ DecodeGarbage(v)
                  \/ Reset)
           \/ Stop
Spec == Init /\ [][Next]_vars

(* C11: whatever happened before, a one-shot call equals a fresh instance's *)
ProbeEqualsFresh == \A v \in Vals : OneShot(v) = Fresh(v)

View == <<ecls, erefs, ecnt, dcls, drefs, Len(hist), fin>>
Emit == fin => PrintT(<<"VEC", ToJson([h |-> hist])>>)
=====================================================================
