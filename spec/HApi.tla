---------------------------- MODULE HApi ----------------------------
(* Life cycle of one encoder / decoder / serializer instance (C11).    *)
(* The per-stream tables (class definitions sent / read, objects       *)
(* registered for back-references, type names) persist between         *)
(* streaming calls and are cleared by Reset; every one-shot entry      *)
(* point is DEFINED as Reset followed by the streaming action.  Hence  *)
(* after any history a one-shot call behaves as on a fresh instance.   *)
(*                                                                     *)
(* Values are abstracted to what the tables can remember about them:   *)
(* the classes they need and the identities of the objects in them.    *)
EXTENDS Integers, Sequences, FiniteSets, TLC, Json

CONSTANTS MaxLen,      \* bound on the history length
          Deviation    \* "none" | "resetKeepsRefs" | "resetKeepsDefs" | "encodeSkipsReset"

Vals == 1..4
Classes(v) == CASE v = 1 -> {} [] v = 2 -> {"A"} [] v = 3 -> {"A"} [] v = 4 -> {"A", "B"}
Objects(v) == CASE v = 1 -> {} [] v = 2 -> {} [] v = 3 -> {"p"} [] v = 4 -> {"p"}     \* stable pointer identities

VARIABLES ecls, erefs,      \* encoder tables
          dcls, drefs,      \* decoder tables (what earlier values of the stream defined)
          hist,
          fin               \* the history is complete (generation only)
vars == <<ecls, erefs, dcls, drefs, hist, fin>>

(* what a streaming write of v emits, given the tables *)
Render(v, cls, refs) == [defs |-> Classes(v) \ cls, backrefs |-> Objects(v) \cap refs]
Fresh(v) == Render(v, {}, {})

ResetEnc(cls, refs) == CASE Deviation = "resetKeepsRefs" -> <<{}, refs>>
                         [] Deviation = "resetKeepsDefs" -> <<cls, {}>>
                         [] OTHER -> <<{}, {}>>
(* a one-shot encode on the instance as it is now *)
OneShot(v) == LET r == IF Deviation = "encodeSkipsReset" THEN <<ecls, erefs>> ELSE ResetEnc(ecls, erefs)
              IN Render(v, r[1], r[2])

Init == ecls = {} /\ erefs = {} /\ dcls = {} /\ drefs = {} /\ hist = <<>> /\ fin = FALSE

Log(op, v) == hist' = Append(hist, [op |-> op, v |-> v])

StreamWrite(v) == /\ ecls' = ecls \cup Classes(v) /\ erefs' = erefs \cup Objects(v)
                  /\ UNCHANGED <<dcls, drefs>> /\ Log("swrite", v)
EncodeOk(v) ==    /\ LET r == ResetEnc(ecls, erefs) IN
                     /\ ecls' = r[1] \cup Classes(v) /\ erefs' = r[2] \cup Objects(v)
                  /\ UNCHANGED <<dcls, drefs>> /\ Log("encode", v)
(* a failing encode (unsupported element in the middle): tables left partly filled *)
EncodeFail(v) ==  /\ LET r == ResetEnc(ecls, erefs) IN
                     /\ ecls' \in SUBSET (r[1] \cup Classes(v)) /\ r[1] \subseteq ecls'
                     /\ erefs' \in SUBSET (r[2] \cup Objects(v)) /\ r[2] \subseteq erefs'
                  /\ UNCHANGED <<dcls, drefs>> /\ Log("encodefail", v)
StreamRead(v) ==  /\ dcls' = dcls \cup Classes(v) /\ drefs' = drefs \cup Objects(v)
                  /\ UNCHANGED <<ecls, erefs>> /\ Log("sread", v)
DecodeOk(v) ==    /\ dcls' = Classes(v) /\ drefs' = Objects(v)
                  /\ UNCHANGED <<ecls, erefs>> /\ Log("decode", v)
DecodeGarbage(v) == /\ dcls' \in SUBSET Classes(v) /\ drefs' \in SUBSET Objects(v)
                    /\ UNCHANGED <<ecls, erefs>> /\ Log("decodegarbage", v)
Reset ==          /\ LET r == ResetEnc(ecls, erefs) IN ecls' = r[1] /\ erefs' = r[2]
                  /\ dcls' = {} /\ drefs' = {} /\ Log("reset", 1)

Stop == hist # <<>> /\ fin' = TRUE /\ UNCHANGED <<ecls, erefs, dcls, drefs, hist>>
Next == /\ ~fin
        /\ \/ (/\ Len(hist) < MaxLen /\ fin' = FALSE
               /\ \/ \E v \in Vals : StreamWrite(v) \/ EncodeOk(v) \/ StreamRead(v) \/ DecodeOk(v)
                  \/ \E v \in {2, 4} : EncodeFail(v) \/ DecodeGarbage(v)
                  \/ Reset)
           \/ Stop
Spec == Init /\ [][Next]_vars

(* C11: whatever happened before, a one-shot call equals a fresh instance's *)
ProbeEqualsFresh == \A v \in Vals : OneShot(v) = Fresh(v)

View == <<ecls, erefs, dcls, drefs, Len(hist), fin>>
Emit == fin => PrintT(<<"VEC", ToJson([h |-> hist])>>)
=====================================================================
