---------------------------- MODULE HIeee ----------------------------
(* Bit-exact classification of an IEEE-754 binary64 given as 8 octets *)
(* (big-endian), by octet arithmetic only.                            *)
EXTENDS HBytes

Sign(b) == b[1] \div 128
Exp(b)  == ((b[1] % 128) * 16) + (b[2] \div 16)               \* 0..2047
MZero(b) == b[2] % 16 = 0 /\ \A i \in 3..8 : b[i] = 0
IsNaN(b)  == Exp(b) = 2047 /\ ~MZero(b)
IsInf(b)  == Exp(b) = 2047 /\ MZero(b)
IsZero(b) == Exp(b) = 0 /\ MZero(b)

(* low k (0..52) mantissa bits are zero *)
LowZero(b, k) ==
  LET full == k \div 8  rem == k % 8 IN
  IF k >= 52 THEN MZero(b)
  ELSE /\ \A j \in 0..(full - 1) : b[8 - j] = 0
       /\ (rem = 0 \/ (IF full = 6 THEN (b[2] % 16) % Pow2(rem) = 0
                                   ELSE b[8 - full] % Pow2(rem) = 0))

(* exactly representable as IEEE binary32 (NaN excluded: see IsNaN) *)
IsF32Exact(b) ==
  \/ IsZero(b) \/ IsInf(b)
  \/ (Exp(b) >= 897 /\ Exp(b) <= 1150 /\ LowZero(b, 29))                  \* normal
  \/ (Exp(b) >= 874 /\ Exp(b) <= 896  /\ LowZero(b, 29 + (897 - Exp(b)))) \* f32 subnormal

(* <<TRUE, v>> iff integral with value in -32768..32767 *)
Integral16(b) ==
  IF IsZero(b) THEN <<TRUE, 0>>
  ELSE IF Exp(b) < 1023 \/ Exp(b) > 1038 THEN <<FALSE, 0>>
  ELSE LET E == Exp(b) - 1023 IN
       IF ~LowZero(b, 52 - E) THEN <<FALSE, 0>> ELSE
       LET top16 == ((b[2] % 16) * 4096) + (b[3] * 16) + (b[4] \div 16)
           v == (65536 + top16) \div Pow2(16 - E)
       IN IF Sign(b) = 1 THEN (IF v <= 32768 THEN <<TRUE, 0 - v>> ELSE <<FALSE, 0>>)
          ELSE (IF v <= 32767 THEN <<TRUE, v>> ELSE <<FALSE, 0>>)

(* int16 value -> the 8 octets of the double with that value *)
RECURSIVE HiBit(_)
HiBit(v) == IF v <= 1 THEN 0 ELSE 1 + HiBit(v \div 2)        \* floor(log2 v), v >= 1
DoubleOfInt(n) ==
  IF n = 0 THEN <<0, 0, 0, 0, 0, 0, 0, 0>>
  ELSE LET a  == IF n < 0 THEN 0 - n ELSE n                   \* 1..32768
           E  == HiBit(a)                                     \* 0..15
           fr == (a - Pow2(E)) * Pow2(16 - E)                 \* top 16 mantissa bits
           ex == 1023 + E
           s  == IF n < 0 THEN 128 ELSE 0
       IN <<s + (ex \div 16), ((ex % 16) * 16) + (fr \div 4096),
            (fr \div 16) % 256, (fr % 16) * 16, 0, 0, 0, 0>>

(* widen an IEEE binary32 (4 octets) to binary64 (8 octets), exact *)
F32Sign(c) == c[1] \div 128
F32Exp(c)  == ((c[1] % 128) * 2) + (c[2] \div 128)            \* 0..255
F32Man(c)  == <<c[2] % 128, c[3], c[4]>>                      \* 7 + 8 + 8 bits
F32ManZero(c) == c[2] % 128 = 0 /\ c[3] = 0 /\ c[4] = 0
(* 23-bit mantissa m = <<m1(7), m2(8), m3(8)>> placed at the top of the
   52-bit mantissa: nibble(4) | b3 .. b8 *)
Man23To52(m) == <<m[1] \div 8,
                  ((m[1] % 8) * 32) + (m[2] \div 8),
                  ((m[2] % 8) * 32) + (m[3] \div 8),
                  (m[3] % 8) * 32, 0, 0, 0>>
RECURSIVE Norm23(_,_)
(* shift a non-zero 23-bit subnormal mantissa left until bit 23 would be
   the hidden one; returns <<mantissa without hidden bit, shifts>> *)
Man23Val(m) == (m[1] * 65536) + (m[2] * 256) + m[3]
Norm23(v, k) == IF v >= 8388608 THEN <<v - 8388608, k>> ELSE Norm23(v * 2, k + 1)
Widen32(c) ==
  LET s == F32Sign(c) * 128  e == F32Exp(c) IN
  IF e = 255 THEN
     LET mm == Man23To52(F32Man(c)) IN
     <<s + 127, 240 + mm[1], mm[2], mm[3], mm[4], 0, 0, 0>>
  ELSE IF e = 0 THEN
     IF F32ManZero(c) THEN <<s, 0, 0, 0, 0, 0, 0, 0>>
     ELSE LET nv == Norm23(Man23Val(F32Man(c)), 0)         \* value = 1.m * 2^(-126 - k)
              m3 == <<nv[1] \div 65536, (nv[1] \div 256) % 256, nv[1] % 256>>
              mm == Man23To52(m3)
              ex == 1023 - 126 - nv[2]
          IN <<s + (ex \div 16), ((ex % 16) * 16) + mm[1], mm[2], mm[3], mm[4], 0, 0, 0>>
  ELSE LET ex == e - 127 + 1023
           mm == Man23To52(F32Man(c))
       IN <<s + (ex \div 16), ((ex % 16) * 16) + mm[1], mm[2], mm[3], mm[4], 0, 0, 0>>
=======================================================================
