SPECIFICATION Spec
CONSTANTS NS = 2
 NF = 2
 Deviation = "stopAtNil"
INVARIANTS Closed
CHECK_DEADLOCK FALSE
