---------------------------- MODULE TraceCodec ----------------------------
(* Trace specification for recorded codec calls.  One event = one public  *)
(* call (or one encode/decode pair) of the real library; every clause of  *)
(* the specification is evaluated on every event; a failed clause is      *)
(* recorded (REJ line) and validation continues.                          *)
EXTENDS HDenote, HApiRef, TLC, Json

Trace == ndJsonDeserialize("trace.ndjson")

VARIABLES l, nrej
vars == <<l, nrej>>

Ctx(e) == [n |-> e.v.n, T |-> e.T]

(* value contains an int of Go kind int/uint outside the wire window: the *)
(* call may fail instead of carrying it (C07)                             *)
WideInt(s) == s.k = "int" /\ s.g = "int" /\ ~Fits32(s.b)
HasWide(v) == \/ WideInt(v.r)
              \/ \E i \in 1..Len(v.n) :
                   LET N == v.n[i] IN
                   CASE N.k = "obj"  -> \E j \in 1..Len(N.f) : WideInt(N.f[j])
                     [] N.k = "list" -> \E j \in 1..Len(N.e) : WideInt(N.e[j])
                     [] N.k = "map"  -> \E j \in 1..Len(N.m) : WideInt(N.m[j][1]) \/ WideInt(N.m[j][2])

RtCodes(e) ==
  LET C == Ctx(e) bad == HasBad(e.v) IN
  (IF e.xpanic = 1 THEN {<<"C16.panic", 0>>} ELSE {})
  \cup
  (IF e.epanic = 1 THEN {<<(IF bad THEN "C13.panic" ELSE "C01.encpanic"), 0>>}
   ELSE IF bad THEN (IF e.eerr = 1 THEN {} ELSE {<<"C13.silent", 0>>})
   ELSE IF e.eerr = 1 THEN (IF HasWide(e.v) THEN {} ELSE {<<"C01.encerr", 0>>})
   ELSE DenotesCodes(C, e.out, e.v.r)
        \cup (IF e.dpanic = 1 THEN {<<"C01.decpanic", 0>>}
              ELSE IF e.derr = 1 THEN {<<"C01.decerr", 0>>}
              ELSE IF e.carrier = 1 THEN {<<"C06.carrier", 0>>}
              ELSE SameCodes(C, e.v, e.r) \cup GenericMapCodes(C, e.v, e.r)))

(* ---- streams: n values written one after another on one stream ---- *)
(* acc = [p, st, S, bad]; value k must start where value k-1 ended, parse  *)
(* with the stream tables built so far, end at the recorded write offset,  *)
(* and denote the k-th written value (ref ordinals and class definitions   *)
(* may reach back into earlier values).                                    *)
RECURSIVE StreamFold(_,_,_,_)
StreamFold(e, C, k, acc) ==
  IF k > Len(e.v.roots) \/ acc.stop THEN acc
  ELSE IF e.werr[k] = 1 THEN [acc EXCEPT !.bad = @ \cup {<<"C06.writeerr", k>>}, !.stop = TRUE]
  ELSE LET r == ParseValue(e.out, acc.p, acc.st) IN
       IF ~r.ok THEN [acc EXCEPT !.bad = @ \cup {<<"C06.wellformed", k>>}, !.stop = TRUE]
       ELSE LET S1 == Den(C, r.w, e.v.roots[k], acc.S, 0)
                b1 == (IF r.p - 1 # e.ends[k] THEN {<<"C06.framing", k>>} ELSE {})
                      \cup (IF e.rerr[k] = 1 THEN {<<"C06.readerr", k>>}
                            ELSE IF e.carrier[k] = 1 THEN {<<"C06.carrier", k>>}
                            ELSE IF e.used[k] # e.ends[k] THEN {<<"C06.offset", k>>} ELSE {})
            IN StreamFold(e, C, k + 1, [p |-> r.p, st |-> r.st, S |-> S1, bad |-> acc.bad \cup b1,
                                        stop |-> r.p - 1 # e.ends[k]])

StreamCodes(e) ==
  LET C == [n |-> e.v.n, T |-> e.T]
      a == StreamFold(e, C, 1, [p |-> 1, st |-> St0, S |-> S0(C), bad |-> {}, stop |-> FALSE])
      n == Len(e.v.roots)
      readsOk == \A k \in 1..n : e.rerr[k] = 0 /\ e.carrier[k] = 0
  IN (IF e.xpanic = 1 THEN {<<"C16.panic", 0>>} ELSE {})
     \cup (IF e.wpanic = 1 THEN {<<"C06.writepanic", 0>>} ELSE {})
     \cup a.bad \cup a.S.bad
     \cup (IF ~readsOk \/ a.stop THEN {}
           ELSE {<<"C06.value", k>> : k \in {j \in 1..n : ~SlotSame(C, e.v.roots[j], e.r.roots[j], FALSE)}}
                \cup (IF Len(e.v.n) # Len(e.r.n) THEN {<<"C06.shape", Len(e.r.n)>>}
                      ELSE {<<"C06.node", i>> : i \in {j \in 1..Len(e.v.n) : ~NodeSame(C, e.v.n[j], e.r.n[j])}}))

(* ---- alternative encodings produced by the reference encoder (HCodec) ---- *)
YearOneMs == <<255, 255, 199, 124, 237, 211, 40, 0>>     \* ms of 0001-01-01T00:00:00Z
ZeroSlot(T, t) ==
  LET k == T[t].kind IN
  CASE k = "bool" -> [k |-> "bool", v |-> 0]
    [] k \in {"int", "int8", "int16", "int32", "int64", "uint", "uint8", "uint16", "uint32", "uint64"} ->
         [k |-> "int", g |-> k, b |-> <<0, 0, 0, 0, 0, 0, 0, 0>>]
    [] k \in {"float32", "float64"} -> [k |-> "f", g |-> k, b |-> <<0, 0, 0, 0, 0, 0, 0, 0>>]
    [] k = "string" -> [k |-> "str", b |-> <<>>]
    [] k = "time" -> [k |-> "time", z |-> 1, b |-> YearOneMs, sub |-> 0]
    [] OTHER -> [k |-> "nil"]
ZeroDropped(v, T, dropped) ==
  [v EXCEPT !.n = [i \in 1..Len(v.n) |->
     IF v.n[i].k # "obj" THEN v.n[i]
     ELSE [v.n[i] EXCEPT !.f = [j \in 1..Len(v.n[i].f) |->
             IF \E d \in 1..Len(dropped) : dropped[d] = <<i, j>> THEN ZeroSlot(T, T[v.n[i].t].ft[j]) ELSE v.n[i].f[j]]]]]

AltCodes(e) ==
  LET C == [n |-> e.v.n, T |-> e.T]
      pr == ParseWhole(e.in)
      exact == e.mode = "exact"
  IN IF ~pr.ok THEN {<<"gen.malformed", pr.at>>}
     ELSE IF exact /\ {c \in Den(C, pr.w, e.v.r, S0(C), 0).bad : c[1] \notin {"C07.shortest", "C08.shortest", "C02.dateUnit"}} # {}
          THEN {<<"gen.notDenoting", 0>>}
     ELSE IF e.panic = 1 THEN {<<"C03.panic", 0>>}
     ELSE IF e.err = 1 THEN {<<"C03.error", 0>>}
     ELSE IF e.carrier = 1 THEN {<<"C06.carrier", 0>>}
     ELSE (IF e.used # Len(e.in) THEN {<<"C03.consumed", e.used>>} ELSE {})
          \cup (IF exact /\ e.r0ok = 1
                THEN {<<"C03.value", c[2]>> : c \in SameCodes([n |-> e.r0.n, T |-> e.T], e.r0, e.r)}
                ELSE {<<(IF exact THEN "C03.value" ELSE "C05.value"), c[2]>> :
                        c \in SameCodes(C, ZeroDropped(e.v, e.T, e.dropped), e.r)})

(* ---- hostile input (C14): the call returned; no panic; resources flat-bounded ---- *)
(* bounds no implementation linear in the input can exceed for inputs <= 64 KiB     *)
MaxAllocKiB == 262144        \* 256 MiB
MaxMillis == 10000
HostileCodes(e) ==
  (IF e.crash = 1 THEN {<<"C14.crash", e.len>>} ELSE {})
  \cup (IF e.panic = 1 THEN {<<"C14.panic", e.len>>} ELSE {})
  \cup (IF e.hang = 1 THEN {<<"C14.hang", e.len>>} ELSE {})
  \cup (IF e.crash = 0 /\ e.alloc > MaxAllocKiB THEN {<<"C14.memory", e.alloc>>} ELSE {})
  \cup (IF e.crash = 0 /\ e.hang = 0 /\ e.ms > MaxMillis THEN {<<"C14.time", e.ms>>} ELSE {})
  \* the classification TLC attached to a mutant survives the trip through the harness
  \cup (IF e.hasin = 1 /\ e.wf >= 0 /\ (ParseWhole(e.in).ok # (e.wf = 1)) THEN {<<"gen.classification", 0>>} ELSE {})

(* ---- histories (C11): a used instance answers a one-shot call like a fresh one; ---- *)
(* ---- values, input octets and the caller's maps are untouched                    ---- *)
HistCodes(e) ==
  UNION {
    (IF e.probes[i].eu # e.probes[i].ef THEN {<<"C11.encodeBytes", i>>} ELSE {})
    \cup (IF e.probes[i].eerru # e.probes[i].eerrf THEN {<<"C11.encodeErr", i>>} ELSE {})
    \cup (IF e.probes[i].du # e.probes[i].df THEN {<<"C11.decodeValue", i>>} ELSE {})
    \cup (IF e.probes[i].derru # e.probes[i].derrf THEN {<<"C11.decodeErr", i>>} ELSE {})
    \* whatever happened before, what a one-shot encode emits is one well-formed value denoting its argument (C02)
    \cup (IF "hasv" \in DOMAIN e.probes[i] /\ e.probes[i].hasv = 1 /\ e.probes[i].eerru = 0
          THEN {<<c[1], i>> : c \in DenotesCodes([n |-> e.probes[i].v.n, T |-> e.probes[i].T], e.probes[i].eu, e.probes[i].v.r)}
          ELSE {})
    : i \in 1..Len(e.probes)}
  \* the sizes of the instance's tables after every operation agree with the life-cycle model (hooked builds)
  \cup (IF "hooked" \in DOMAIN e /\ e.hooked = 1 THEN StateCodes(e.kind, e.ops, e.states) ELSE {})
  \cup (IF e.va # e.vb THEN {<<"C11.mutatedValue", 0>>} ELSE {})
  \cup (IF e.ba # e.bb THEN {<<"C11.mutatedBytes", 0>>} ELSE {})
  \cup (IF e.ma # e.mb THEN {<<"C11.mutatedMap", 0>>} ELSE {})

(* ---- type / name map extraction (C16) ---- *)
TSucc(T, t) == LET k == T[t].kind IN
               CASE k = "struct" -> {T[t].ft[j] : j \in 1..Len(T[t].ft)}
                 [] k = "slice"  -> {T[t].elem}
                 [] k = "map"    -> {T[t].key, T[t].elem}
                 [] k = "ptr"    -> {T[t].elem}
                 [] OTHER -> {}
RECURSIVE TClosure(_,_)
TClosure(T, S) == LET S2 == S \cup UNION {TSucc(T, t) : t \in S} IN IF S2 = S THEN S ELSE TClosure(T, S2)
RECURSIVE TBase(_,_)
TBase(T, t) == IF T[t].kind = "ptr" THEN TBase(T, T[t].elem) ELSE t
RECURSIVE TSame(_,_,_)
TSame(T, a, b) == LET x == TBase(T, a) y == TBase(T, b) IN
                  x = y \/ (T[x].kind = "slice" /\ T[y].kind = "slice" /\ TSame(T, T[x].elem, T[y].elem))
Lookup(pairs, key) == LET S == {i \in 1..Len(pairs) : pairs[i][1] = key} IN
                      IF S = {} THEN <<FALSE, 0>> ELSE <<TRUE, pairs[CHOOSE i \in S : TRUE][2]>>
ExtractCodes(e) ==
  IF e.crash = 1 THEN {<<"C16.crash", 0>>}
  ELSE IF e.hang = 1 THEN {<<"C16.hang", 0>>}
  ELSE
  (IF e.panic = 1 THEN {<<"C16.panic", 0>>} ELSE {})
  \cup (IF e.ofpanic = 1 THEN {<<"C16.typeMapOfPanic", 0>>} ELSE {})
  \cup (IF e.same = 0 THEN {<<"diag.entryPointsDiffer", 0>>} ELSE {})
  \cup (IF e.panic = 1 THEN {} ELSE
        LET T == e.T
            reach == TClosure(T, {e.root})
            dyn == {e.dyn[i] : i \in 1..Len(e.dyn)}           \* types the witness holds, behind interfaces too
            need == {t \in reach \cup TClosure(T, dyn) : T[t].kind \in {"struct", "slice"}}
        IN UNION {
             LET n == Lookup(e.nm, e.names[t]) IN
             IF ~n[1] THEN {<<"C16.closed", t>>}                       \* no wire name for a reachable type
             ELSE (IF e.customs[t] # <<>> /\ n[2] # e.customs[t] THEN {<<"C16.custom", t>>} ELSE {})
                  \cup (LET m == Lookup(e.tm, n[2]) IN
                        IF ~m[1] THEN {<<"C16.closed", t>>}             \* wire name not in the type map
                        ELSE IF ~TSame(T, m[2], t) THEN {<<"C16.consistent", t>>} ELSE {})
             : t \in need}
           \* two different slice types under ONE wire name: the type map can map it back to one of them only
           \cup {<<"C16.sliceNameCollision", t>> : t \in {s \in need : T[s].kind = "slice" /\
                   \E u \in need : u # s /\ T[u].kind = "slice" /\ Lookup(e.nm, e.names[s])[1] /\ Lookup(e.nm, e.names[u])[1]
                                    /\ Lookup(e.nm, e.names[s])[2] = Lookup(e.nm, e.names[u])[2]}})
  \cup (IF e.ofpanic = 1 THEN {} ELSE
        LET T == e.T
            structs == {t \in TClosure(T, {e.root}) : T[t].kind = "struct"}
            static == {t \in TClosure(T, {e.root}) : T[t].kind \in {"struct", "slice"}}
        IN {<<"C16.typeMapOf", t>> : t \in {s \in structs : ~\E i \in 1..Len(e.tmof) : e.tmof[i][2] = s}}
           \* the type map OF A TYPE is closed too: every struct and slice type under the wire name the name map gives it
           \cup (IF e.panic = 1 THEN {} ELSE
                 {<<"C16.typeMapOfClosed", t>> : t \in {s \in static :
                     LET n == Lookup(e.nm, e.names[s])  m == Lookup(e.tmof, n[2]) IN n[1] /\ (~m[1] \/ ~TSame(T, m[2], s))}}))

(* ---- concurrency (C12) ---- *)
(* replayed interleaving: every instance's stream and results equal those of the same calls alone *)
ConcCodes(e) ==
  {<<"C12.octets", i>> : i \in {j \in 1..Len(e.outs) : e.outs[j] # e.alone[j]}}
  \cup {<<"C12.value", i>> : i \in {j \in 1..Len(e.rs) : e.rs[j] # e.ars[j]}}
  \cup (IF e.bads # e.abads THEN {<<"C12.errors", 0>>} ELSE {})
  \cup {<<"C12.failed", k>> : k \in {j \in 1..Len(e.bads) : e.bads[j] = 1}}
(* one goroutine's calls under load: octets equal the call alone; sampled results equal the inputs *)
LoadCodes(e) ==
  {<<"C12.octets", k>> : k \in {j \in 1..Len(e.calls) : e.calls[j][2] # e.alone[e.calls[j][1]]}}
  \cup {<<"C12.failed", k>> : k \in {j \in 1..Len(e.calls) : e.calls[j][3] = 1 \/ e.calls[j][4] = 1}}
  \cup {<<"C12.errors", k>> : k \in {j \in 1..Len(e.errs) : e.errs[j][1] # e.errs[j][2]}}   \* a failing call fails as it does alone
  \cup UNION {{<<"C12.value", k>> : c \in SameCodes([n |-> e.pairs[k].v.n, T |-> e.T], e.pairs[k].v, e.pairs[k].r)}
              : k \in 1..Len(e.pairs)}
(* the package-level variables of the library and who may assign to them: all mutable *)
(* codec state lives in the instances; package-level state is written at start-up only *)
SharedVarsAllowed == [hlog |-> {"SetLogger"}, _buildInTypeNameMap |-> {"addBuildInNameType"}]
InventoryCodes(e) ==
  {<<"diag.inventory", i>> : i \in {j \in 1..Len(e.vars) :
       LET v == e.vars[j] ws == {v.writers[k] : k \in 1..Len(v.writers)} IN
       ws # {} /\ (v.name \notin DOMAIN SharedVarsAllowed \/ ~(ws \subseteq SharedVarsAllowed[v.name]))}}

Codes(e) == CASE e.ev = "rt" -> RtCodes(e)
              [] e.ev = "conc" -> ConcCodes(e)
              [] e.ev = "concload" -> LoadCodes(e)
              [] e.ev = "inventory" -> InventoryCodes(e)
              [] e.ev = "extract" -> ExtractCodes(e)
              [] e.ev = "hist" -> HistCodes(e)
              [] e.ev = "hostile" -> HostileCodes(e)
              [] e.ev = "alt" -> AltCodes(e)
              [] e.ev = "stream" -> StreamCodes(e)
              [] OTHER -> {<<"trace.unknownEvent", 0>>}

Init == l = 1 /\ nrej = 0
Next == /\ l <= Len(Trace)
        /\ LET e == Trace[l]  cs == Codes(e) IN
           /\ \A c \in cs : PrintT(<<"REJ", e.id, c[1], c[2]>>)
           /\ nrej' = nrej + Cardinality(cs)
        /\ l' = l + 1
Spec == Init /\ [][Next]_vars

TraceAccepted == /\ TLCGet("stats").diameter - 1 = Len(Trace)
                 /\ PrintT(<<"DONE", Len(Trace)>>)
===========================================================================
