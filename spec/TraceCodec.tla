---------------------------- MODULE TraceCodec ----------------------------
(* Trace specification for recorded codec calls.  One event = one public  *)
(* call (or one encode/decode pair) of the real library; every clause of  *)
(* the specification is evaluated on every event; a failed clause is      *)
(* recorded (REJ line) and validation continues.                          *)
EXTENDS HDenote, TLC, Json

Trace == ndJsonDeserialize("trace.ndjson")

VARIABLES l, nrej
vars == <<l, nrej>>

Ctx(e) == [n |-> e.v.n, T |-> e.T]

(* value contains an int of Go kind int/uint outside the wire window: the *)
(* call may fail instead of carrying it (C07)                             *)
WideInt(s) == s.k = "int" /\ s.g = "int" /\ ~Fits32(s.b)
HasWide(v) == \/ WideInt(v.r)
              \/ \E i \in 1..Len(v.n) :
                   LET N == v.n[i] IN
                   CASE N.k = "obj"  -> \E j \in 1..Len(N.f) : WideInt(N.f[j])
                     [] N.k = "list" -> \E j \in 1..Len(N.e) : WideInt(N.e[j])
                     [] N.k = "map"  -> \E j \in 1..Len(N.m) : WideInt(N.m[j][1]) \/ WideInt(N.m[j][2])

RtCodes(e) ==
  LET C == Ctx(e) bad == HasBad(e.v) IN
  (IF e.xpanic = 1 THEN {<<"C16.panic", 0>>} ELSE {})
  \cup
  (IF e.epanic = 1 THEN {<<(IF bad THEN "C13.panic" ELSE "C01.encpanic"), 0>>}
   ELSE IF bad THEN (IF e.eerr = 1 THEN {} ELSE {<<"C13.silent", 0>>})
   ELSE IF e.eerr = 1 THEN (IF HasWide(e.v) THEN {} ELSE {<<"C01.encerr", 0>>})
   ELSE DenotesCodes(C, e.out, e.v.r)
        \cup (IF e.dpanic = 1 THEN {<<"C01.decpanic", 0>>}
              ELSE IF e.derr = 1 THEN {<<"C01.decerr", 0>>}
              ELSE IF e.carrier = 1 THEN {<<"C06.carrier", 0>>}
              ELSE SameCodes(C, e.v, e.r)))

Codes(e) == CASE e.ev = "rt" -> RtCodes(e)
              [] OTHER -> {<<"trace.unknownEvent", 0>>}

Init == l = 1 /\ nrej = 0
Next == /\ l <= Len(Trace)
        /\ LET e == Trace[l]  cs == Codes(e) IN
           /\ \A c \in cs : PrintT(<<"REJ", e.id, c[1], c[2]>>)
           /\ nrej' = nrej + Cardinality(cs)
        /\ l' = l + 1
Spec == Init /\ [][Next]_vars

TraceAccepted == /\ TLCGet("stats").diameter - 1 = Len(Trace)
                 /\ PrintT(<<"DONE", Len(Trace)>>)
===========================================================================
