SPECIFICATION Spec
CONSTANTS IntHi = 20000
INVARIANTS IntOK LongOK DoubleOK ArithOK TagOK
CHECK_DEADLOCK FALSE
