---------------------------- MODULE HCodec ----------------------------
(* The Hessian 2.0 stream protocol as a small-step state machine: the     *)
(* reference (nondeterministic) ENCODER.  One action per step of          *)
(* WriteData: emit a leaf, open an object / list / map (registering its   *)
(* reference ordinal), emit a class definition, emit a string chunk,      *)
(* close a variable-length container.  Every choice the grammar allows    *)
(* is a nondeterministic choice of an action:                             *)
(*   number form, string/binary chunking, list form (fixed/variable x     *)
(*   typed/untyped where the destination permits), type literal vs.       *)
(*   back-reference, short/long instance form, placement of class         *)
(*   definitions, N vs x00, H vs M, map entry order, and (DefMode =       *)
(*   "vary") the field list of a class definition.                        *)
(* The stream tables (cls, typ, nref/bind) are the protocol state.        *)
(* Together with the reference decoder (HParse) and Denotes this is the   *)
(* codec model: invariant ParseBack says encoder and decoder are inverse  *)
(* and build the same tables (RefAgreement, DefBeforeUse, TablesAgree).   *)
EXTENDS HDenote, TLC, Json

CONSTANTS DefMode,      \* "exact": definitions list the fields in declaration order
                        \* "vary" : any permutation / subset / one unknown field (C05)
          PreDefs,      \* set of numbers of unrelated class definitions hoisted in front
          MaxChunks,    \* bound on non-final chunks per string / binary
          Deviation,    \* "none" | "refBeforeNull" (negative configuration)
          Wide,         \* TRUE: explore non-minimal number forms and all list forms
          MaxDev        \* at most this many choice points of one encoding depart from the canonical choice

Values == ndJsonDeserialize("values.ndjson")

VARIABLES vi,      \* index of the value being encoded
          todo,    \* work stack (top = last)
          out,     \* octets emitted so far
          cls,     \* class definitions emitted: <<[t, order]>>   (t = 0: unrelated class)
          typ,     \* type names emitted in type position
          bind,    \* node id -> ordinal, -1 if not yet sent
          nref,    \* ordinals handed out
          dropped, \* <<node, field>> pairs left out by a varied definition
          dev,     \* number of non-canonical choices made so far
          done
vars == <<vi, todo, out, cls, typ, bind, nref, dropped, dev, done>>

V == Values[vi].v
T == Values[vi].T
Ty(t) == T[t]
Ctx == [n |-> V.n, T |-> T]

Top == todo[Len(todo)]
Pop == SubSeq(todo, 1, Len(todo) - 1)
Push(stk, items) == stk \o items          \* items[Len] becomes the new top
RECURSIVE Rev(_)
Rev(s) == IF s = <<>> THEN <<>> ELSE Append(Rev(Tail(s)), Head(s))

Slot(s, td) == [k |-> "slot", s |-> s, td |-> td]
Lit(b) == [k |-> "lit", b |-> b]

(* ---------------- choices and their cost ---------------- *)
(* an option is [b |-> octets, c |-> 0 (canonical: what the shortest / usual *)
(* rendering does) or 1]; Pick(o) charges it against MaxDev                  *)
Opt(b, c) == [b |-> b, c |-> c]
Costed(forms, canon) == {Opt(f, IF f = canon THEN 0 ELSE 1) : f \in forms}
Pick(o) == dev + o.c <= MaxDev /\ dev' = dev + o.c
Shortest(forms) == CHOOSE f \in forms : \A g \in forms : Len(f) <= Len(g)

(* ---------------- leaf forms ---------------- *)
IntEnc(n) == IF Wide THEN IntForms(n) ELSE {IntMin(n), IntForm(n, 5)}
LongEnc(b8) == IF Wide THEN LongForms(b8) ELSE {LongMin(b8), LongForm(b8, 9)}
DoubleEnc(b8) ==
  LET i == Integral16(b8) IN
  {<<68>> \o b8}
  \cup (IF i[1] /\ i[2] = 0 /\ ~NegZero(b8) THEN {<<91>>} ELSE {})
  \cup (IF i[1] /\ i[2] = 1 THEN {<<92>>} ELSE {})
  \cup (IF i[1] /\ i[2] >= -128 /\ i[2] <= 127 /\ ~NegZero(b8) THEN {<<93, i[2] % 256>>} ELSE {})
  \cup (IF i[1] /\ ~NegZero(b8) THEN {<<94, (i[2] \div 256) % 256, i[2] % 256>>} ELSE {})

LeafForms(s) ==
  CASE s.k \in {"nil", "empty"} -> {<<78>>}
    [] s.k = "bool" -> {IF s.v = 1 THEN <<84>> ELSE <<70>>}
    [] s.k = "int"  -> IF WireKind(s.g) = "int" /\ Fits32(s.b) THEN IntEnc(Low32(s.b)) ELSE LongEnc(s.b)
    [] s.k = "f"    -> DoubleEnc(s.b)
    [] s.k = "time" -> IF s.z = 1 THEN {<<78>>} ELSE {<<74>> \o s.b}
    [] OTHER -> {}

LeafOpts(s) == LET fs == LeafForms(s) IN Costed(fs, Shortest(fs))
IntOpts(n) == Costed(IntEnc(n), IntMin(n))

IsLeaf(s) == s.k \in {"nil", "empty", "bool", "int", "f", "time"}

(* ---------------- strings / binaries ---------------- *)
StrFinalHdrs(c, bin) ==
  IF bin THEN (IF c <= 15 THEN {<<32 + c>>} ELSE {})
              \cup (IF c <= 1023 THEN {<<52 + (c \div 256), c % 256>>} ELSE {})
              \cup {<<66, c \div 256, c % 256>>}
  ELSE (IF c <= 31 THEN {<<c>>} ELSE {})
       \cup (IF c <= 1023 THEN {<<48 + (c \div 256), c % 256>>} ELSE {})
       \cup {<<83, c \div 256, c % 256>>}
StrChunkHdr(c, bin) == IF bin THEN <<65, c \div 256, c % 256>> ELSE <<82, c \div 256, c % 256>>
Min2(a, b) == IF a < b THEN a ELSE b
ChunkChoices(left) == {c \in {0, 1, 2, left \div 2, left - 1, left} : c >= 0 /\ c <= left /\ c <= 65535}

(* ---------------- class definitions ---------------- *)
(* the definition an instance of type t uses: the LATEST one for its class (a stream may *)
(* define a class again, e.g. with another field order; earlier instances keep theirs)  *)
DefsOf(t) == {i \in 1..Len(cls) : cls[i].t = t}
DefIndex(t) == IF DefsOf(t) = {} THEN 0 ELSE CHOOSE i \in DefsOf(t) : \A j \in DefsOf(t) : j <= i
ShortStr(b) == <<CharCount(b)>> \o b                \* names are shorter than 32 characters here (the prefix counts characters)
Droppable(ty, j) == Ty(ty.ft[j]).kind \in {"bool", "int", "int8", "int16", "int32", "int64", "uint", "uint8",
                                            "uint16", "uint32", "uint64", "float32", "float64", "string", "bytes", "time"}
Injective(f) == \A a, b \in DOMAIN f : a # b => f[a] # f[b]
(* orders: sequences of field indexes (0 = an unknown wire field) *)
Orders(ty) ==
  LET n == Len(ty.fn)  id == [j \in 1..n |-> j] IN
  IF DefMode = "exact" THEN {id}
  ELSE LET must == {j \in 1..n : ~Droppable(ty, j)}
           subs == {f \in UNION {[1..k -> 1..n] : k \in 0..n} : Injective(f) /\ must \subseteq {f[x] : x \in DOMAIN f}}
           withU(f) == {SubSeq(f, 1, p) \o <<0>> \o SubSeq(f, p + 1, Len(f)) : p \in 0..Len(f)}
       IN IF n > 5 THEN {id, Rev(id)} \cup withU(id)
          ELSE subs \cup UNION {withU(f) : f \in subs}
UnknownName == <<122, 122, 85, 110, 107>>           \* "zzUnk"
(* a wire name that differs from a Go field's name only in the case of its SECOND letter: *)
(* not a field of the Go type (only the first letter is matched case-insensitively)       *)
IsLetter(x) == (x >= 65 /\ x <= 90) \/ (x >= 97 /\ x <= 122)
FlipCase(x) == IF x >= 97 THEN x - 32 ELSE x + 32
NearNames(ty) == {[Lower1(ty.fn[j]) EXCEPT ![2] = FlipCase(@)] : j \in {i \in 1..Len(ty.fn) : Len(ty.fn[i]) >= 2 /\ IsLetter(ty.fn[i][2])}}
(* the name of a field of an EMBEDDED struct: a field of that struct, not of this one (the library writes an  *)
(* embedded struct as one field named after its type and reads it back as such)                                *)
HasFe(ty) == "fe" \in DOMAIN ty
PromotedNames(ty) == IF ~HasFe(ty) THEN {} ELSE
  UNION {{Lower1(Ty(ty.ft[j]).fn[k]) : k \in 1..Len(Ty(ty.ft[j]).fn)}
         : j \in {i \in 1..Len(ty.fn) : ty.fe[i] = 1 /\ Ty(ty.ft[i]).kind = "struct"}}
UnknownNames(ty) == {UnknownName, <<>>} \cup NearNames(ty) \cup (PromotedNames(ty) \ {Lower1(ty.fn[j]) : j \in 1..Len(ty.fn)})
DefOctets(ty, order, upper, unk) ==
  LET name == IF ty.hasreg = 1 THEN ty.reg ELSE ty.name
      RECURSIVE Names(_)
      Names(k) == IF k > Len(order) THEN <<>>
                  ELSE ShortStr(IF order[k] = 0 THEN unk
                                ELSE IF upper THEN ty.fn[order[k]] ELSE Lower1(ty.fn[order[k]])) \o Names(k + 1)
  IN <<67>> \o ShortStr(name) \o IntMin(Len(order)) \o Names(1)
(* unrelated definition number i (hoisted in front): class "Dxx" without fields *)
PreDefOctets(i) == <<67>> \o ShortStr(<<68, 48 + (i \div 10), 48 + (i % 10)>>) \o <<144>>

(* values an unknown wire field may carry; each with the ordinals and class defs it consumes *)
UnknownVals ==
  { [b |-> <<151>>, refs |-> 0, defs |-> 0],                                \* int 7
    [b |-> <<3, 97, 98, 99>>, refs |-> 0, defs |-> 0],                      \* "abc"
    [b |-> <<78>>, refs |-> 0, defs |-> 0],                                 \* null
    [b |-> <<120>>, refs |-> 1, defs |-> 0],                                \* empty untyped list
    [b |-> <<121, 145>>, refs |-> 1, defs |-> 0],                           \* list of one int
    [b |-> <<87, 145, 146, 90>>, refs |-> 1, defs |-> 0],                   \* variable-length list
    [b |-> <<72, 1, 107, 145, 90>>, refs |-> 1, defs |-> 0],                \* map {"k": 1}
    [b |-> <<74, 0, 0, 1, 93, 0, 0, 0, 0>>, refs |-> 0, defs |-> 0],        \* a date
    [b |-> <<34, 1, 2>>, refs |-> 0, defs |-> 0],                           \* a binary
    [b |-> <<3, 97, 226, 130, 172, 98>>, refs |-> 0, defs |-> 0],           \* "a€b": three characters, five octets
    [b |-> <<121, 1, 195, 169>>, refs |-> 1, defs |-> 0] }                  \* list holding "é"
(* ... and values whose types the receiver does not know either (a newer peer added a field of a type *)
(* the older one never heard of): they depend on the state (the instance tag is the definition's index) *)
UnkName == <<85, 110, 107>>                                  \* "Unk"
UnknownTypedVals ==
  { [b |-> <<113>> \o ShortStr(<<91>> \o UnkName) \o <<145>>, refs |-> 1, defs |-> 0, typs |-> << <<91>> \o UnkName >>],   \* typed list "[Unk" {1}
    [b |-> <<77>> \o ShortStr(UnkName) \o <<145, 146, 90>>, refs |-> 1, defs |-> 0, typs |-> <<UnkName>>],               \* typed map "Unk" {1: 2}
    [b |-> <<67>> \o ShortStr(UnkName) \o <<145>> \o ShortStr(<<120>>)                                                     \* C "Unk" 1 "x", instance, 1
             \o (IF Len(cls) <= 15 THEN <<96 + Len(cls)>> ELSE <<79>> \o IntMin(Len(cls))) \o <<145>>,
     refs |-> 1, defs |-> 1, typs |-> <<>>] }

(* ---------------- Init / actions ---------------- *)
Init == /\ vi \in 1..Len(Values)
        /\ todo = <<Slot(Values[vi].v.r, FALSE)>>
        /\ out = <<>> /\ cls = <<>> /\ typ = <<>>
        /\ bind = [i \in 1..Len(Values[vi].v.n) |-> -1]
        /\ nref = 0 /\ dropped = {} /\ dev = 0 /\ done = FALSE

(* unrelated class definitions hoisted in front of the value *)
Hoist == /\ out = <<>> /\ ~done
         /\ \E k \in PreDefs : k > 0 /\
              LET RECURSIVE D(_)
                  D(i) == IF i >= k THEN <<>> ELSE PreDefOctets(i) \o D(i + 1)
              IN /\ out' = D(0)
                 /\ cls' = [i \in 1..k |-> [t |-> 0, order |-> <<>>]]
         /\ UNCHANGED <<vi, todo, typ, bind, nref, dropped, dev, done>>
PreDefsOK == 0 \in PreDefs \/ out # <<>>     \* when 0 is not allowed, Hoist must come first

EmitLit == /\ todo # <<>> /\ Top.k = "lit"
           /\ out' = out \o Top.b /\ todo' = Pop
           /\ UNCHANGED <<vi, cls, typ, bind, nref, dropped, dev, done>>

EmitLeaf == /\ todo # <<>> /\ Top.k = "slot" /\ IsLeaf(Top.s) /\ PreDefsOK
            /\ \E o \in LeafOpts(Top.s) : Pick(o) /\ out' = out \o o.b
            /\ nref' = IF Deviation = "refBeforeNull" /\ (Top.s.k = "empty" \/ (Top.s.k = "time" /\ Top.s.z = 0))
                       THEN nref + 1 ELSE nref      \* the pinned tree's registration order
            /\ todo' = Pop
            /\ UNCHANGED <<vi, cls, typ, bind, dropped, done>>

(* strings and binaries: "" may be N or a zero-length final chunk *)
StartStr == /\ todo # <<>> /\ Top.k = "slot" /\ Top.s.k \in {"str", "bin"} /\ PreDefsOK
            /\ LET bin == Top.s.k = "bin"
                   n == IF bin THEN Len(Top.s.b) ELSE CharCount(Top.s.b) IN
               \/ (n = 0 /\ out' = out \o <<78>> /\ todo' = Pop /\ dev' = dev)
               \/ (todo' = Append(Pop, [k |-> "str", b |-> Top.s.b, p |-> 1, left |-> n, bin |-> bin, nch |-> 0])
                   /\ out' = out /\ Pick(Opt(<<>>, IF n = 0 THEN 1 ELSE 0)))      \* "" as x00 rather than N
            /\ UNCHANGED <<vi, cls, typ, bind, nref, dropped, done>>

EmitChunk == /\ todo # <<>> /\ Top.k = "str"
             /\ LET it == Top IN
                \E c \in ChunkChoices(it.left) :
                  LET q == IF it.bin THEN it.p + c ELSE SkipChars(it.b, it.p, c)
                      payload == SubSeq(it.b, it.p, q - 1) IN
                  \/ (c = it.left /\ \E o \in Costed(StrFinalHdrs(c, it.bin), Shortest(StrFinalHdrs(c, it.bin))) :
                        /\ Pick(IF it.left = 0 THEN Opt(o.b, 0) ELSE o)
                        /\ out' = out \o o.b \o payload /\ todo' = Pop)
                  \/ (it.nch < MaxChunks /\ Pick(Opt(<<>>, 1))
                      /\ out' = out \o StrChunkHdr(c, it.bin) \o payload
                      /\ todo' = Append(Pop, [it EXCEPT !.p = q, !.left = @ - c, !.nch = @ + 1]))
             /\ UNCHANGED <<vi, cls, typ, bind, nref, dropped, done>>

IsPtr(s) == s.k = "p"
Node(s) == V.n[s.i]

EmitRef == /\ todo # <<>> /\ Top.k = "slot" /\ IsPtr(Top.s) /\ bind[Top.s.i] # -1
           /\ \E o \in IntOpts(bind[Top.s.i]) : Pick(o) /\ out' = out \o <<81>> \o o.b
           /\ todo' = Pop
           /\ UNCHANGED <<vi, cls, typ, bind, nref, dropped, done>>

(* a class definition just before the first instance of its class *)
EmitDef == /\ todo # <<>> /\ Top.k = "slot" /\ IsPtr(Top.s) /\ bind[Top.s.i] = -1 /\ PreDefsOK
           /\ Node(Top.s).k = "obj"
           /\ \/ DefIndex(Node(Top.s).t) = 0
              \/ (DefMode = "vary" /\ Cardinality(DefsOf(Node(Top.s).t)) = 1)      \* define the class a second time
           /\ LET t == Node(Top.s).t  ty == Ty(t)  again == DefIndex(t) # 0 IN
              \E order \in Orders(ty) : \E upper \in (IF DefMode = "vary" THEN {FALSE, TRUE} ELSE {FALSE}) :
              \E unk \in (IF \E k \in 1..Len(order) : order[k] = 0 THEN UnknownNames(ty) ELSE {UnknownName}) :
                 /\ (again => order # cls[DefIndex(t)].order)
                 /\ Pick(Opt(<<>>, IF again \/ upper \/ order # [j \in 1..Len(ty.fn) |-> j] THEN 1 ELSE 0))
                 /\ out' = out \o DefOctets(ty, order, upper, unk)
                 /\ cls' = Append(cls, [t |-> t, order |-> order])
           /\ UNCHANGED <<vi, todo, typ, bind, nref, dropped, done>>

(* value ::= class-def value: a class definition may stand in front of ANY value - a scalar field, a list   *)
(* element, a map key - long before the first instance of its class; also definitions of unrelated classes *)
Unrelated == Cardinality({i \in 1..Len(cls) : cls[i].t = 0})
ObjTypes == {V.n[i].t : i \in {j \in 1..Len(V.n) : V.n[j].k = "obj"}}
EmitEarlyDef ==
  /\ todo # <<>> /\ Top.k = "slot" /\ PreDefsOK /\ ~done /\ DefMode = "exact"
  /\ Pick(Opt(<<>>, 1))
  /\ \/ (Unrelated < 60 /\ out' = out \o PreDefOctets(Unrelated) /\ cls' = Append(cls, [t |-> 0, order |-> <<>>]))
     \/ \E t \in {x \in ObjTypes : DefIndex(x) = 0} :
          LET ty == Ty(t)  id == [j \in 1..Len(ty.fn) |-> j] IN
          /\ out' = out \o DefOctets(ty, id, FALSE, UnknownName)
          /\ cls' = Append(cls, [t |-> t, order |-> id])
  /\ UNCHANGED <<vi, todo, typ, bind, nref, dropped, done>>

(* instance tag (short or long form); the ordinal is taken BEFORE the fields *)
EmitObject ==
  /\ todo # <<>> /\ Top.k = "slot" /\ IsPtr(Top.s) /\ bind[Top.s.i] = -1
  /\ Node(Top.s).k = "obj" /\ DefIndex(Node(Top.s).t) # 0
  /\ LET N == Node(Top.s)  di == DefIndex(N.t)  order == cls[di].order
         items == [j \in 1..Len(order) |->
                     IF order[j] = 0 THEN [k |-> "unknown"] ELSE Slot(N.f[order[j]], TRUE)]
         gone == {j \in 1..Len(N.f) : j \notin {order[x] : x \in 1..Len(order)}}
     IN /\ \/ (di - 1 <= 15 /\ out' = out \o <<96 + (di - 1)>> /\ dev' = dev)
           \/ (\E o \in IntOpts(di - 1) : Pick(IF di - 1 <= 15 THEN Opt(o.b, 1) ELSE o) /\ out' = out \o <<79>> \o o.b)
        /\ bind' = [bind EXCEPT ![Top.s.i] = nref] /\ nref' = nref + 1
        /\ todo' = Push(Pop, Rev(items))
        /\ dropped' = dropped \cup {<<Top.s.i, j>> : j \in gone}
  /\ UNCHANGED <<vi, cls, typ, done>>

(* the value of an unknown wire field: may consume ordinals *)
EmitUnknown == /\ todo # <<>> /\ Top.k = "unknown"
               /\ \/ (\E u \in UnknownVals : out' = out \o u.b /\ nref' = nref + u.refs) /\ UNCHANGED <<cls, typ>>
                  \/ \E u \in UnknownTypedVals :
                       /\ out' = out \o u.b /\ nref' = nref + u.refs
                       /\ typ' = typ \o u.typs
                       /\ cls' = cls \o [i \in 1..u.defs |-> [t |-> 0, order |-> <<>>]]
               /\ todo' = Pop
               /\ UNCHANGED <<vi, bind, dropped, dev, done>>

(* type position: literal (appends to the type table) or back-reference *)
TypeForms(name) ==
  {[b |-> ShortStr(name), add |-> TRUE, c |-> 0]}
  \cup {[b |-> IntMin(i - 1), add |-> FALSE, c |-> 1] : i \in {x \in 1..Len(typ) : typ[x] = name}}

EmitList ==
  /\ todo # <<>> /\ Top.k = "slot" /\ IsPtr(Top.s) /\ bind[Top.s.i] = -1 /\ PreDefsOK
  /\ Node(Top.s).k = "list"
  /\ LET N == Node(Top.s)  ty == Ty(N.t)  n == Len(N.e)
         canTyped == ty.hasreg = 1 /\ ty.ifroot = 0
         canUntyped == ~canTyped \/ Top.td
         etd == Ty(ty.elem).kind # "iface"
         elems == [j \in 1..n |-> Slot(N.e[j], etd)]
         (* list headers: [b, c, var, tf] ; canonical = what a fixed-length writer does *)
         untyped == IF ~canUntyped THEN {} ELSE
                    {[b |-> <<88>> \o o.b, c |-> o.c, var |-> FALSE, add |-> FALSE] : o \in IntOpts(n)}
                    \cup (IF n <= 7 THEN {[b |-> <<120 + n>>, c |-> 1, var |-> FALSE, add |-> FALSE]} ELSE {})
                    \cup (IF Wide THEN {[b |-> <<87>>, c |-> 1, var |-> TRUE, add |-> FALSE]} ELSE {})
         typed == IF ~canTyped THEN {} ELSE UNION {
                    (IF n <= 7 THEN {[b |-> <<112 + n>> \o tf.b, c |-> tf.c, var |-> FALSE, add |-> tf.add]} ELSE {})
                    \cup {[b |-> <<86>> \o tf.b \o o.b, c |-> tf.c + o.c + (IF n <= 7 THEN 1 ELSE 0), var |-> FALSE, add |-> tf.add] : o \in IntOpts(n)}
                    \cup (IF Wide THEN {[b |-> <<85>> \o tf.b, c |-> tf.c + 1, var |-> TRUE, add |-> tf.add]} ELSE {})
                    : tf \in TypeForms(ty.reg)}
         (* an untyped rendering of a list that could be typed departs from the canonical one *)
         hdrs == typed \cup {[h EXCEPT !.c = IF canTyped THEN @ + 1 ELSE @] : h \in untyped}
     IN /\ bind' = [bind EXCEPT ![Top.s.i] = nref] /\ nref' = nref + 1
        /\ \E h \in hdrs :
             /\ Pick(h) /\ out' = out \o h.b
             /\ typ' = IF h.add THEN Append(typ, ty.reg) ELSE typ
             /\ todo' = IF h.var THEN Push(Pop, <<Lit(<<90>>)>> \o Rev(elems)) ELSE Push(Pop, Rev(elems))
  /\ UNCHANGED <<vi, cls, dropped, done>>

EmitMap ==
  /\ todo # <<>> /\ Top.k = "slot" /\ IsPtr(Top.s) /\ bind[Top.s.i] = -1 /\ PreDefsOK
  /\ Node(Top.s).k = "map"
  /\ LET N == Node(Top.s)  ty == Ty(N.t)  n == Len(N.m)
         canTyped == ty.named = 1 /\ ty.hasreg = 1
         (* entries have a typed destination only if the map itself has one: an unnamed map *)
         (* outside a typed destination is read as a generic map                            *)
         dtd == Top.td \/ canTyped
         ktd == dtd /\ Ty(ty.key).kind # "iface"   vtd == dtd /\ Ty(ty.elem).kind # "iface"
         fwd == [j \in 1..(2 * n) |-> IF j % 2 = 1 THEN Slot(N.m[(j + 1) \div 2][1], ktd)
                                                     ELSE Slot(N.m[j \div 2][2], vtd)]
         bwd == [j \in 1..(2 * n) |-> IF j % 2 = 1 THEN Slot(N.m[n - ((j + 1) \div 2) + 1][1], ktd)
                                                     ELSE Slot(N.m[n - (j \div 2) + 1][2], vtd)]
     IN /\ bind' = [bind EXCEPT ![Top.s.i] = nref] /\ nref' = nref + 1
        /\ \E ord \in (IF Wide /\ n > 1 THEN {fwd, bwd} ELSE {fwd}) :
             /\ \/ (~canTyped /\ Pick(Opt(<<>>, IF ord = fwd THEN 0 ELSE 1)) /\ out' = out \o <<72>> /\ typ' = typ)
                \/ (canTyped /\ \E tf \in TypeForms(ty.reg) :
                      /\ Pick(Opt(<<>>, tf.c + (IF ord = fwd THEN 0 ELSE 1)))
                      /\ out' = out \o <<77>> \o tf.b
                      /\ typ' = IF tf.add THEN Append(typ, ty.reg) ELSE typ)
             /\ todo' = Push(Pop, <<Lit(<<90>>)>> \o Rev(ord))
  /\ UNCHANGED <<vi, cls, dropped, done>>

Finish == /\ todo = <<>> /\ ~done /\ done' = TRUE
          /\ UNCHANGED <<vi, todo, out, cls, typ, bind, nref, dropped, dev>>

Next == Hoist \/ EmitLit \/ EmitLeaf \/ StartStr \/ EmitChunk \/ EmitRef \/ EmitDef \/ EmitEarlyDef
        \/ EmitObject \/ EmitUnknown \/ EmitList \/ EmitMap \/ Finish
Spec == Init /\ [][Next]_vars /\ WF_vars(Next)

(* ---------------- properties of the model ---------------- *)
(* the reference decoder reads every complete stream back to the value and
   ends with the same tables (exact definitions only) *)
ParseBack ==
  (done /\ DefMode = "exact") =>
     LET pr == ParseWhole(out) IN
     /\ pr.ok
     /\ {c[1] : c \in Den(Ctx, pr.w, V.r, S0(Ctx), 0).bad} \subseteq {"C07.shortest", "C08.shortest"}   \* RoundTrip
     /\ pr.st.nref = nref                                                    \* RefAgreement (count)
     /\ Len(pr.st.cls) = Len(cls) /\ pr.st.typ = typ                         \* TablesAgree
(* every prefix produced so far is a prefix of a well-formed stream: a
   definition precedes every instance (the parser would reject otherwise) *)
WellFormedWhenDone == done => ParseWhole(out).ok
(* ordinals are dense and injective *)
RefTable ==
  /\ \A i \in 1..Len(bind) : bind[i] < nref
  /\ \A i, j \in 1..Len(bind) : (i # j /\ bind[i] # -1) => bind[i] # bind[j]
Terminates == <>done

(* ---------------- generator ---------------- *)
Emit == done => PrintT(<<"VEC", ToJson([vid |-> Values[vi].id, b |-> out,
                                       dropped |-> {<<x[1], x[2]>> : x \in dropped}])>>)
=======================================================================
