---------------------------- MODULE HScalar ----------------------------
(* Wire forms of the Hessian 2.0 scalars: every legal form, the        *)
(* shortest form, and the decoding of each form.                       *)
EXTENDS HIeee

Fail(p, why) == [ok |-> FALSE, at |-> p, why |-> why]
Ok(w, p, st) == [ok |-> TRUE, w |-> w, p |-> p, st |-> st]

(* ------------------------------ int ------------------------------ *)
IsIntTag(t) == (t >= 128 /\ t <= 215) \/ t = 73
IntMinLen(n) == IF n >= -16 /\ n <= 47 THEN 1
                ELSE IF n >= -2048 /\ n <= 2047 THEN 2
                ELSE IF n >= -262144 /\ n <= 262143 THEN 3 ELSE 5
IntForm(n, len) ==            \* the form of that length (when legal)
  CASE len = 1 -> <<144 + n>>
    [] len = 2 -> <<200 + (n \div 256), n % 256>>
    [] len = 3 -> <<212 + (n \div 65536), (n \div 256) % 256, n % 256>>
    [] len = 5 -> <<73>> \o B4(n)
IntLens(n) == {l \in {1, 2, 3, 5} : l >= IntMinLen(n)}
IntForms(n) == {IntForm(n, l) : l \in IntLens(n)}
IntMin(n) == IntForm(n, IntMinLen(n))
ParseInt(b, p) ==
  IF ~Has(b, p, 1) THEN Fail(p, "eof") ELSE
  LET t == b[p] IN
  IF t >= 128 /\ t <= 191 THEN Ok([k |-> "int", v |-> t - 144, len |-> 1], p + 1, 0)
  ELSE IF t >= 192 /\ t <= 207 THEN
       IF Has(b, p, 2) THEN Ok([k |-> "int", v |-> (t - 200) * 256 + b[p+1], len |-> 2], p + 2, 0) ELSE Fail(p, "eof")
  ELSE IF t >= 208 /\ t <= 215 THEN
       IF Has(b, p, 3) THEN Ok([k |-> "int", v |-> (t - 212) * 65536 + b[p+1] * 256 + b[p+2], len |-> 3], p + 3, 0) ELSE Fail(p, "eof")
  ELSE IF t = 73 THEN
       IF Has(b, p, 5) THEN Ok([k |-> "int", v |-> I32(b[p+1], b[p+2], b[p+3], b[p+4]), len |-> 5], p + 5, 0) ELSE Fail(p, "eof")
  ELSE Fail(p, "notint")

(* ------------------------------ long ----------------------------- *)
(* a long is 8 octets; v32 is its value when it fits 32 bits          *)
IsLongTag(t) == t >= 216 \/ (t >= 56 /\ t <= 63) \/ t = 89 \/ t = 76
LongMinLen(b8) == IF ~Fits32(b8) THEN 9 ELSE
                  LET n == Low32(b8) IN
                  IF n >= -8 /\ n <= 15 THEN 1
                  ELSE IF n >= -2048 /\ n <= 2047 THEN 2
                  ELSE IF n >= -262144 /\ n <= 262143 THEN 3 ELSE 5
LongForm(b8, len) ==
  CASE len = 1 -> <<224 + Low32(b8)>>
    [] len = 2 -> <<248 + (Low32(b8) \div 256), Low32(b8) % 256>>
    [] len = 3 -> <<60 + (Low32(b8) \div 65536), (Low32(b8) \div 256) % 256, Low32(b8) % 256>>
    [] len = 5 -> <<89>> \o SubSeq(b8, 5, 8)
    [] len = 9 -> <<76>> \o b8
LongLens(b8) == {l \in {1, 2, 3, 5, 9} : l >= LongMinLen(b8)}
LongForms(b8) == {LongForm(b8, l) : l \in LongLens(b8)}
LongMin(b8) == LongForm(b8, LongMinLen(b8))
ParseLong(b, p) ==
  IF ~Has(b, p, 1) THEN Fail(p, "eof") ELSE
  LET t == b[p] IN
  IF t >= 216 /\ t <= 239 THEN Ok([k |-> "long", v |-> Ext8(t - 224), len |-> 1], p + 1, 0)
  ELSE IF t >= 240 THEN (IF Has(b,p,2) THEN Ok([k |-> "long", v |-> Ext8((t - 248) * 256 + b[p+1]), len |-> 2], p + 2, 0) ELSE Fail(p,"eof"))
  ELSE IF t >= 56 /\ t <= 63 THEN (IF Has(b,p,3) THEN Ok([k |-> "long", v |-> Ext8((t - 60) * 65536 + b[p+1]*256 + b[p+2]), len |-> 3], p + 3, 0) ELSE Fail(p,"eof"))
  ELSE IF t = 89 THEN (IF Has(b,p,5) THEN Ok([k |-> "long", v |-> Ext8(I32(b[p+1], b[p+2], b[p+3], b[p+4])), len |-> 5], p + 5, 0) ELSE Fail(p,"eof"))
  ELSE IF t = 76 THEN (IF Has(b,p,9) THEN Ok([k |-> "long", v |-> Sub(b, p+1, 8), len |-> 9], p + 9, 0) ELSE Fail(p,"eof"))
  ELSE Fail(p, "notlong")

(* ----------------------------- double ---------------------------- *)
(* a double is the 8 octets of its IEEE binary64                      *)
IsDoubleTag(t) == (t >= 91 /\ t <= 95) \/ t = 68
PosZero == <<0, 0, 0, 0, 0, 0, 0, 0>>
DoubleOne == <<63, 240, 0, 0, 0, 0, 0, 0>>
NegZero(b8) == IsZero(b8) /\ Sign(b8) = 1
(* shortest length whose decoded value is exactly b8 (as a number:
   -0 = +0); a NaN may take 5 or 9 *)
DoubleMinLen(b8) ==
  LET i == Integral16(b8) IN
  IF i[1] THEN (IF i[2] = 0 \/ i[2] = 1 THEN 1
                ELSE IF i[2] >= -128 /\ i[2] <= 127 THEN 2 ELSE 3)
  ELSE IF IsNaN(b8) THEN 5
  ELSE IF IsF32Exact(b8) THEN 5 ELSE 9
ParseDouble(b, p) ==
  IF ~Has(b, p, 1) THEN Fail(p, "eof") ELSE
  LET t == b[p] IN
  IF t = 91 THEN Ok([k |-> "double", v |-> PosZero, len |-> 1], p + 1, 0)
  ELSE IF t = 92 THEN Ok([k |-> "double", v |-> DoubleOne, len |-> 1], p + 1, 0)
  ELSE IF t = 93 THEN (IF Has(b,p,2) THEN Ok([k |-> "double", v |-> DoubleOfInt(S8(b[p+1])), len |-> 2], p + 2, 0) ELSE Fail(p,"eof"))
  ELSE IF t = 94 THEN (IF Has(b,p,3) THEN Ok([k |-> "double", v |-> DoubleOfInt(S8(b[p+1]) * 256 + b[p+2]), len |-> 3], p + 3, 0) ELSE Fail(p,"eof"))
  ELSE IF t = 95 THEN (IF Has(b,p,5) THEN Ok([k |-> "double", v |-> Widen32(Sub(b, p+1, 4)), len |-> 5], p + 5, 0) ELSE Fail(p,"eof"))
  ELSE IF t = 68 THEN (IF Has(b,p,9) THEN Ok([k |-> "double", v |-> Sub(b, p+1, 8), len |-> 9], p + 9, 0) ELSE Fail(p,"eof"))
  ELSE Fail(p, "notdouble")
(* numeric equality of two doubles given as octets *)
DoubleEq(x, y) == \/ x = y
                  \/ (IsZero(x) /\ IsZero(y))
                  \/ (IsNaN(x) /\ IsNaN(y))

(* ------------------------------ date ----------------------------- *)
(* x4a: 64-bit milliseconds; x4b: 32-bit compact.  The published       *)
(* grammar counts MINUTES in the compact form; this library counts     *)
(* SECONDS (named deviation DateCompactSeconds).                       *)
IsDateTag(t) == t = 74 \/ t = 75
ParseDate(b, p) ==
  IF ~Has(b, p, 1) THEN Fail(p, "eof") ELSE
  LET t == b[p] IN
  IF t = 74 THEN (IF Has(b,p,9) THEN Ok([k |-> "date", form |-> "ms", v |-> Sub(b, p+1, 8), len |-> 9], p + 9, 0) ELSE Fail(p,"eof"))
  ELSE IF t = 75 THEN (IF Has(b,p,5) THEN Ok([k |-> "date", form |-> "compact", v |-> Sub(b, p+1, 4), len |-> 5], p + 5, 0) ELSE Fail(p,"eof"))
  ELSE Fail(p, "notdate")

(* ----------------------- 64-bit octet arithmetic ------------------ *)
(* unsigned multiply of an octet sequence (big-endian, any length) by a
   small factor, keeping Len octets (overflow discarded = mod 2^(8 Len)) *)
RECURSIVE MulSmallR(_,_,_,_)
MulSmallR(b, i, f, carry) ==      \* processes b[i] down to b[1]
  IF i = 0 THEN <<>>
  ELSE LET x == b[i] * f + carry IN
       Append(MulSmallR(b, i - 1, f, x \div 256), x % 256)
MulSmall(b, f) == MulSmallR(b, Len(b), f, 0)
(* two's complement add of two equal-length octet sequences *)
RECURSIVE AddR(_,_,_,_)
AddR(a, b, i, carry) ==
  IF i = 0 THEN <<>>
  ELSE LET x == a[i] + b[i] + carry IN Append(AddR(a, b, i - 1, x \div 256), x % 256)
Add8(a, b) == AddR(a, b, Len(a), 0)
(* compact seconds (4 octets, signed) -> milliseconds as 8 octets *)
SecToMs8(c4) == MulSmall(Ext8(I32(c4[1], c4[2], c4[3], c4[4])), 1000)
(* compact minutes -> milliseconds *)
MinToMs8(c4) == MulSmall(Ext8(I32(c4[1], c4[2], c4[3], c4[4])), 60000)
(* signed comparison a < b of 8-octet two's complement values *)
RECURSIVE LexLess(_,_,_)
LexLess(a, b, i) == IF i > Len(a) THEN FALSE
                    ELSE IF a[i] # b[i] THEN a[i] < b[i] ELSE LexLess(a, b, i + 1)
Flip(a) == [a EXCEPT ![1] = (a[1] + 128) % 256]
Less8(a, b) == LexLess(Flip(a), Flip(b), 1)
One8 == <<0, 0, 0, 0, 0, 0, 0, 1>>

(* ----------------------------- strings --------------------------- *)
IsStrTag(t) == t <= 31 \/ (t >= 48 /\ t <= 51) \/ t = 82 \/ t = 83
Utf8Width(lead) == IF lead < 128 THEN 1 ELSE IF lead < 192 THEN 0
                   ELSE IF lead < 224 THEN 2 ELSE IF lead < 240 THEN 3
                   ELSE IF lead < 248 THEN 4 ELSE 0
IsCont(x) == x >= 128 /\ x < 192
(* position after n complete code points starting at p; 0 = malformed /
   truncated.  Balanced recursion (depth log n). *)
RECURSIVE SkipChars(_,_,_)
SkipChars(b, p, n) ==
  IF n = 0 THEN p ELSE IF p = 0 \/ p > Len(b) THEN 0
  ELSE IF n > 16 THEN LET m == SkipChars(b, p, n \div 2) IN
                      IF m = 0 THEN 0 ELSE SkipChars(b, m, n - (n \div 2))
  ELSE LET w == Utf8Width(b[p]) IN
       IF w = 0 \/ p + w - 1 > Len(b) THEN 0
       ELSE IF \E j \in 1..(w - 1) : ~IsCont(b[p + j]) THEN 0
       ELSE SkipChars(b, p + w, n - 1)
(* number of code points of a well-formed UTF-8 octet sequence *)
RECURSIVE CountRange(_,_,_)
CountRange(b, lo, hi) ==      \* lead octets in b[lo..hi]
  IF hi < lo THEN 0
  ELSE IF hi - lo > 16 THEN LET m == (lo + hi) \div 2 IN CountRange(b, lo, m) + CountRange(b, m + 1, hi)
  ELSE (IF IsCont(b[lo]) THEN 0 ELSE 1) + CountRange(b, lo + 1, hi)
CharCount(b) == CountRange(b, 1, Len(b))

(* string header at p: <<header octets, declared length, final?>> or <<0,0,FALSE>> *)
StrHdr(b, p) ==
  LET t == b[p] IN
  IF t <= 31 THEN <<1, t, TRUE>>
  ELSE IF t >= 48 /\ t <= 51 THEN (IF Has(b,p,2) THEN <<2, (t-48)*256 + b[p+1], TRUE>> ELSE <<0,0,FALSE>>)
  ELSE IF t = 83 \/ t = 82 THEN (IF Has(b,p,3) THEN <<3, b[p+1]*256 + b[p+2], t = 83>> ELSE <<0,0,FALSE>>)
  ELSE <<0,0,FALSE>>
(* w.v = payload octets, w.chunks = <<tag, declared chars>> per chunk *)
RECURSIVE ParseStrR(_,_,_,_)
ParseStrR(b, p, acc, chunks) ==
  IF ~Has(b, p, 1) THEN Fail(p, "eof") ELSE
  LET hdr == StrHdr(b, p) IN
  IF hdr[1] = 0 THEN Fail(p, "strhdr")
  ELSE LET q == p + hdr[1]
           e == SkipChars(b, q, hdr[2])
       IN IF e = 0 THEN Fail(q, "utf8")
          ELSE LET acc2 == acc \o Sub(b, q, e - q)
                   ch2 == Append(chunks, <<b[p], hdr[2]>>)
               IN IF hdr[3] THEN Ok([k |-> "str", v |-> acc2, chunks |-> ch2], e, 0)
                  ELSE ParseStrR(b, e, acc2, ch2)
ParseStr(b, p) == ParseStrR(b, p, <<>>, <<>>)

(* ----------------------------- binary ---------------------------- *)
(* 'A' (x41) is the non-final chunk of the published byte-code map.    *)
IsBinTag(t) == (t >= 32 /\ t <= 47) \/ (t >= 52 /\ t <= 55) \/ t = 65 \/ t = 66
BinHdr(b, p) ==
  LET t == b[p] IN
  IF t >= 32 /\ t <= 47 THEN <<1, t - 32, TRUE>>
  ELSE IF t >= 52 /\ t <= 55 THEN (IF Has(b,p,2) THEN <<2, (t-52)*256 + b[p+1], TRUE>> ELSE <<0,0,FALSE>>)
  ELSE IF t = 65 \/ t = 66 THEN (IF Has(b,p,3) THEN <<3, b[p+1]*256 + b[p+2], t = 66>> ELSE <<0,0,FALSE>>)
  ELSE <<0,0,FALSE>>
RECURSIVE ParseBinR(_,_,_,_)
ParseBinR(b, p, acc, chunks) ==
  IF ~Has(b, p, 1) THEN Fail(p, "eof") ELSE
  LET hdr == BinHdr(b, p) IN
  IF hdr[1] = 0 THEN Fail(p, "binhdr")
  ELSE LET q == p + hdr[1] IN
       IF ~Has(b, q, hdr[2]) /\ hdr[2] > 0 THEN Fail(q, "eof")
       ELSE LET acc2 == acc \o Sub(b, q, hdr[2])
                ch2 == Append(chunks, <<b[p], hdr[2]>>)
            IN IF hdr[3] THEN Ok([k |-> "bin", v |-> acc2, chunks |-> ch2], q + hdr[2], 0)
               ELSE ParseBinR(b, q + hdr[2], acc2, ch2)
ParseBin(b, p) == ParseBinR(b, p, <<>>, <<>>)
=======================================================================
