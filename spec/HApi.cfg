SPECIFICATION Spec
CONSTANTS MaxLen = 8
 Deviation = "none"
INVARIANTS ProbeEqualsFresh
VIEW View
CHECK_DEADLOCK FALSE
