SPECIFICATION Spec
CONSTANTS MaxWrites = 12
          DropResults = FALSE
INVARIANTS Surfaces StopsAfterFault
PROPERTY Terminates
CHECK_DEADLOCK FALSE
