SPECIFICATION SSpec
CONSTANTS DefMode = "exact"
          PreDefs = {0, 2}
          MaxChunks = 1
          Deviation = "refBeforeNull"
          Wide = TRUE
          MaxDev = 1
          Streaming = TRUE
          DecDeviation = "none"
INVARIANTS NoReject AllRead
CHECK_DEADLOCK FALSE
