SPECIFICATION Spec
CONSTANTS DefMode = "exact"
          PreDefs = {0, 2}
          MaxChunks = 2
          Deviation = "none"
          Wide = TRUE
          MaxDev = 2
INVARIANTS ParseBack RefTable
PROPERTY Terminates
CHECK_DEADLOCK FALSE
