SPECIFICATION SSpec
CONSTANTS DefMode = "exact"
          PreDefs = {0}
          MaxChunks = 1
          Deviation = "none"
          Wide = TRUE
          MaxDev = 0
          Streaming = TRUE
          DecDeviation = "registerAtClose"
INVARIANTS RefAgreement NoReject
CHECK_DEADLOCK FALSE
