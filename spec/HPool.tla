---------------------------- MODULE HPool ----------------------------
(* The object pool of pool.go: a buffered channel of capacity Size and  *)
(* a factory.  Get and Return are single atomic steps (the select with  *)
(* default of the implementation): neither can block.                   *)
EXTENDS Integers, Sequences, FiniteSets, TLC, Json

CONSTANTS G,          \* goroutines
          Size,       \* pool capacity (0 allowed)
          MaxOps,     \* bound on operations per goroutine (model checking only)
          Deviation   \* "none" | "blockingReturn" | "keepAndDrop" (negative configs)

VARIABLES cached,     \* set of pooled objects (which one a Get takes is not part of the contract)
          held,       \* held[g]: sequence of objects g currently holds
          nfresh,     \* number of objects the factory has made
          ops,        \* operations done per goroutine
          hist        \* history of operations (generation / printing only)
vars == <<cached, held, nfresh, ops, hist>>

Range(s) == {s[i] : i \in 1..Len(s)}
Holders(o) == {g \in G : o \in Range(held[g])}

Init == /\ cached = {} /\ held = [g \in G |-> <<>>] /\ nfresh = 0
        /\ ops = [g \in G |-> 0] /\ hist = <<>>

(* Get: some pooled object if there is one, else a fresh one.  (pool.go  *)
(* takes the oldest: a refinement; the contract does not say which.)     *)
Get(g) ==
  /\ ops[g] < MaxOps
  /\ IF cached # {}
     THEN \E o \in cached :
          /\ held' = [held EXCEPT ![g] = Append(@, o)]
          /\ cached' = cached \ {o} /\ UNCHANGED nfresh
     ELSE /\ held' = [held EXCEPT ![g] = Append(@, nfresh + 1)]
          /\ nfresh' = nfresh + 1 /\ UNCHANGED cached
  /\ hist' = Append(hist, [op |-> "get", g |-> g, j |-> 0])
  /\ ops' = [ops EXCEPT ![g] = @ + 1]

(* Return of the j-th object g holds: pooled if there is room, else dropped *)
Return(g, j) ==
  /\ ops[g] < MaxOps /\ j \in 1..Len(held[g])
  /\ LET o == held[g][j] IN
     /\ held' = [held EXCEPT ![g] = SubSeq(@, 1, j - 1) \o SubSeq(@, j + 1, Len(@))]
     /\ CASE Deviation = "blockingReturn" -> Cardinality(cached) < Size /\ cached' = cached \cup {o}   \* no default branch
          [] Deviation = "keepAndDrop"    -> cached' = cached \cup {o}                                   \* forgets the bound
          [] Deviation = "keepCopy"       -> cached' = cached \cup {o} /\ Cardinality(cached) < Size     \* (unused)
          [] OTHER -> cached' = IF Cardinality(cached) < Size THEN cached \cup {o} ELSE cached
  /\ ops' = [ops EXCEPT ![g] = @ + 1] /\ UNCHANGED nfresh
  /\ hist' = Append(hist, [op |-> "ret", g |-> g, j |-> j])

Next == \E g \in G : Get(g) \/ \E j \in 1..Len(held[g]) : Return(g, j)
Spec == Init /\ [][Next]_vars

(* ---- properties (C17) ---- *)
Exclusive ==       \* an object is in at most one place
  /\ \A o \in 1..nfresh : Cardinality(Holders(o)) + (IF o \in cached THEN 1 ELSE 0) <= 1
  /\ \A g \in G : \A i, j \in 1..Len(held[g]) : i # j => held[g][i] # held[g][j]
Bounded == Cardinality(cached) <= Size
NeverBlocks ==     \* whatever the fill level, Get and Return of a held object are enabled
  \A g \in G : ops[g] < MaxOps =>
     /\ ENABLED Get(g)
     /\ \A j \in 1..Len(held[g]) : ENABLED Return(g, j)
FreshWhenEmpty ==  \* action property: a Get on an empty pool yields a brand-new object
  [][\A g \in G : (cached = {} /\ Len(held'[g]) > Len(held[g])) => held'[g][Len(held'[g])] = nfresh + 1]_vars

View == <<cached, held, nfresh, ops>>     \* hist is output only

(* ---- generation of schedules for replay against the real pool ---- *)
Emit == hist # <<>> => PrintT(<<"VEC", ToJson([size |-> Size, h |-> hist])>>)
=======================================================================
