SPECIFICATION Spec
CONSTANTS NS = 3
 NF = 2
 Deviation = "none"
INVARIANTS Closed Sound StackBounded
CHECK_DEADLOCK FALSE
