SPECIFICATION Spec
CONSTANTS MaxLen = 4
 Deviation = "resetKeepsRefs"
INVARIANTS ProbeEqualsFresh
VIEW View
CHECK_DEADLOCK FALSE
