SPECIFICATION Spec
CONSTANTS N = 2
 Classes = {"A", "B"}
 Deviation = "incompleteMap"
INVARIANTS NoSharedWrite
VIEW View
CHECK_DEADLOCK FALSE
