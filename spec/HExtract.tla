---------------------------- MODULE HExtract ----------------------------
(* Extraction of the type map / name map (C16) as a small-step walk over  *)
(* a type graph, driven by a witness value.                               *)
(*   struct types S = 1..NS, each with NF fields; a field is a scalar,    *)
(*   a pointer to / slice of pointers to / map to pointers to a struct,   *)
(*   or a struct by value (only "downwards", Go forbids by-value cycles). *)
(* The witness says, per (struct, field), whether the pointer / container *)
(* is nil / empty in the value handed to the extractor.                   *)
(* Design: a struct type is entered once (visited by type name); a nil    *)
(* pointer or an empty container is walked through a fresh zero element,  *)
(* so the result does not depend on the witness.                          *)
EXTENDS Integers, Sequences, FiniteSets, TLC

CONSTANTS NS, NF,
          Deviation     \* "none" | "stopAtNil" | "noVisited"

S == 1..NS
FieldSpecs == {<<"scalar", 0>>} \cup {<<k, s>> : k \in {"ptr", "slice", "map", "val"}, s \in S}

VARIABLES graph,     \* graph[s][f] \in FieldSpecs
          nilAt,     \* nilAt[s][f] : that field is nil / empty in the witness
          stack,     \* struct types still to be entered
          visited,   \* struct types entered (= keys of both maps)
          done
vars == <<graph, nilAt, stack, visited, done>>

ValOK(g) == \A s \in S : \A f \in 1..NF : g[s][f][1] = "val" => g[s][f][2] > s
Init == /\ graph \in {g \in [S -> [1..NF -> FieldSpecs]] : ValOK(g)}
        /\ nilAt \in [S -> [1..NF -> BOOLEAN]]
        /\ stack = <<1>> /\ visited = {} /\ done = FALSE

Targets(s) ==       \* struct types the walk descends into from s
  {graph[s][f][2] : f \in {x \in 1..NF :
       /\ graph[s][x][1] # "scalar"
       /\ (Deviation = "stopAtNil" /\ graph[s][x][1] = "ptr" => ~nilAt[s][x])}}

RECURSIVE SetToSeq(_)
SetToSeq(T) == IF T = {} THEN <<>> ELSE LET x == CHOOSE y \in T : TRUE IN <<x>> \o SetToSeq(T \ {x})

Enter == /\ ~done /\ stack # <<>>
         /\ LET s == Head(stack) IN
            IF s \in visited /\ Deviation # "noVisited"
            THEN stack' = Tail(stack) /\ UNCHANGED visited
            ELSE /\ visited' = visited \cup {s}
                 /\ stack' = SetToSeq(Targets(s)) \o Tail(stack)
         /\ UNCHANGED <<graph, nilAt, done>>
Finish == /\ ~done /\ stack = <<>> /\ done' = TRUE /\ UNCHANGED <<graph, nilAt, stack, visited>>
Next == Enter \/ Finish
Spec == Init /\ [][Next]_vars /\ WF_vars(Next)

(* static closure of the type graph from the root type *)
Succ(s) == {graph[s][f][2] : f \in {x \in 1..NF : graph[s][x][1] # "scalar"}}
RECURSIVE Closure(_)
Closure(T) == LET T2 == T \cup UNION {Succ(s) : s \in T} IN IF T2 = T THEN T ELSE Closure(T2)

Closed == done => Closure({1}) \subseteq visited
Sound == visited \subseteq Closure({1})
StackBounded == Len(stack) <= NS * NF + 1
Terminates == <>done
=========================================================================
