---------------------------- MODULE HPoolOps ----------------------------
(* Contract-level semantics of the pool as pure operators, shared by the *)
(* trace specifications.  The contract (C17) does not say WHICH pooled   *)
(* object a Get takes nor that a Return must keep the object when there  *)
(* is room, so a state carries the set cs of all contents the pool may   *)
(* have; a call is legal iff it is legal for at least one of them.       *)
EXTENDS Integers, Sequences, FiniteSets, TLC

P0 == [cs |-> {{}}, held |-> {}, seen |-> {}]

(* Get returned object o: o is not held by anyone; it is either brand new *)
(* or one of the pooled objects.  Returns <<ok, state'>>.                 *)
PGet(s, o) ==
  IF o \in s.held THEN <<FALSE, s>>                                   \* Exclusive
  ELSE IF o \notin s.seen THEN                                        \* a fresh object
       <<TRUE, [s EXCEPT !.held = @ \cup {o}, !.seen = @ \cup {o}]>>
  ELSE LET cs2 == {c \ {o} : c \in {x \in s.cs : o \in x}} IN         \* must have been retained
       IF cs2 = {} THEN <<FALSE, s>>
       ELSE <<TRUE, [s EXCEPT !.cs = cs2, !.held = @ \cup {o}]>>

(* Return of o: kept if there is room, or dropped *)
PRet(s, o, size) ==
  IF o \notin s.held THEN <<FALSE, s>>
  ELSE <<TRUE, [s EXCEPT !.held = @ \ {o},
                         !.cs = @ \cup {c \cup {o} : c \in {x \in @ : Cardinality(x) < size}}]>>

(* largest content the pool may have: never above size by construction; *)
(* a pool that retains more shows up as a Get of a seen object that no  *)
(* possible content explains                                            *)
MaxRetained(s) == LET ns == {Cardinality(c) : c \in s.cs} IN CHOOSE n \in ns : \A m \in ns : m <= n
=========================================================================
