---------------------------- MODULE HApiRef ----------------------------
(* Refinement of HApi for the concrete values the history driver uses:    *)
(* predicts, operation by operation, the SIZES of the real instance's     *)
(* per-stream tables (read through the repository's verif-tagged          *)
(* accessors), so that recorded executions are validated against the      *)
(* specification's state and not only through probes.  A disagreement is  *)
(* a DIAGNOSTIC (code diag.state), never a verdict: how many entries a    *)
(* table holds is the implementation's business (an encoder that gives    *)
(* repeated type names by reference, or resets lazily, keeps C11 true).   *)
(*   values  1 "scalar"   2 Small by value   3 p = pointer to a Small    *)
(*           4 q = pointer to a pairP holding p, a 3-element list, a Custom  *)
(*           5 an empty list of strings   6 l = a list holding p twice      *)
EXTENDS Integers, Sequences, FiniteSets, TLC

Cls(v) == CASE v = 1 -> {} [] v = 2 -> {"Small"} [] v = 3 -> {"Small"}
            [] v = 4 -> {"pairP", "Small", "Custom"} [] v = 5 -> {} [] v = 6 -> {"Small"}
TopId(v) == CASE v = 3 -> "p" [] v = 4 -> "q" [] v = 6 -> "l" [] OTHER -> "none"
HasP(v) == v \in {3, 4, 6}
BaseOrd(v) == CASE v = 1 -> 0 [] v = 2 -> 1 [] v = 3 -> 0 [] v = 4 -> 3 [] v = 5 -> 1 [] v = 6 -> 1   \* ordinals besides p
NoEntry(v) == IF v = 5 THEN 1 ELSE 0        \* ordinals that leave no entry in the reference table (empty slices)
Types(v) == IF v \in {4, 5, 6} THEN 1 ELSE 0 \* type names written in type position

(* an encoder's tables: classes defined, identities registered, ordinals, table entries, types written *)
E0 == [cls |-> {}, ids |-> {}, cnt |-> 0, ents |-> 0, typ |-> 0]
Write(s, v) ==
  IF TopId(v) \in s.ids THEN s                      \* the whole value is a back-reference
  ELSE LET newp == HasP(v) /\ "p" \notin s.ids
           k == BaseOrd(v) + (IF newp THEN 1 ELSE 0) IN
       [cls |-> s.cls \cup Cls(v),
        ids |-> s.ids \cup (IF TopId(v) = "none" THEN {} ELSE {TopId(v)}) \cup (IF HasP(v) THEN {"p"} ELSE {}),
        cnt |-> s.cnt + k, ents |-> s.ents + k - NoEntry(v), typ |-> s.typ + Types(v)]
(* a failing encode leaves exactly what was written before the unsupported element *)
FailState(v) == IF v = 2 THEN [cls |-> {"Small"}, ids |-> {}, cnt |-> 2, ents |-> 2, typ |-> 0]
                ELSE [cls |-> {"pairP", "Small", "Custom"}, ids |-> {"p"}, cnt |-> 5, ents |-> 4, typ |-> 0]

(* instance state: encoder tables, streaming flags, the companion stream feeding the decoder, decoder sizes *)
A0 == [e |-> E0, sw |-> FALSE, c |-> E0, sr |-> FALSE, d |-> <<0, 0, 0>>, dfree |-> FALSE]
DecOf(c) == <<Cardinality(c.cls), c.typ, c.cnt>>

Step(kind, s, op) ==
  LET v == op.v  hasE == kind \in {"enc", "ser"}  hasD == kind \in {"dec", "ser"} IN
  CASE op.op = "swrite" /\ hasE -> [s EXCEPT !.e = Write(IF s.sw THEN s.e ELSE E0, v), !.sw = TRUE]
    [] op.op = "encode" /\ hasE -> [s EXCEPT !.e = Write(E0, v), !.sw = FALSE]
    [] op.op = "encodefail" /\ hasE -> [s EXCEPT !.e = FailState(v), !.sw = FALSE]
    [] op.op = "sread" /\ hasD ->
         LET c2 == Write(IF s.sr THEN s.c ELSE E0, v) IN
         [s EXCEPT !.c = c2, !.sr = TRUE, !.d = DecOf(c2), !.dfree = FALSE]
    [] op.op = "decode" /\ hasD -> [s EXCEPT !.d = DecOf(Write(E0, v)), !.sr = FALSE, !.dfree = FALSE]
    [] op.op = "decodegarbage" /\ hasD -> [s EXCEPT !.sr = FALSE, !.dfree = TRUE, !.d = DecOf(Write(E0, v))]   \* upper bound
    [] op.op = "reset" /\ kind = "enc" -> [s EXCEPT !.e = E0, !.sw = TRUE]
    [] op.op = "reset" /\ kind = "dec" -> [s EXCEPT !.c = E0, !.sr = TRUE, !.d = <<0, 0, 0>>, !.dfree = FALSE]
    [] OTHER -> s

\* observed sizes agree with the prediction; a decode of damaged input may stop anywhere short of the full tables
Agrees(kind, s, obs) ==
  /\ (kind \in {"enc", "ser"} => obs.e = <<Cardinality(s.e.cls), s.e.ents, s.e.cnt>>)
  /\ (kind \in {"dec", "ser"} =>
        IF s.dfree THEN \A i \in 1..3 : obs.d[i] >= 0 /\ obs.d[i] <= s.d[i] ELSE obs.d = s.d)

RECURSIVE StateFold(_,_,_,_,_)
StateFold(kind, ops, obs, k, s) ==
  IF k > Len(ops) THEN {}
  ELSE LET s2 == Step(kind, s, ops[k]) IN
       (IF Agrees(kind, s2, obs[k]) THEN {} ELSE {<<"diag.state", k>>})
       \cup StateFold(kind, ops, obs, k + 1, s2)
StateCodes(kind, ops, obs) == StateFold(kind, ops, obs, 1, A0)
=======================================================================
